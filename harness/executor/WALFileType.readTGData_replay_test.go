package executor

// Replay harness for (*WALFileType).readTGData: builds a real file from the solver's model of the ghost file
// (fileContent[0..fileSize), position filePos) and checks on the real code that the call neither panics nor
// returns data together with an error.

import (
	"encoding/json"
	"fmt"
	"os"
	"path/filepath"
	"strconv"
	"testing"
)

func verifReplayGhostFile(t *testing.T) (*os.File, int64) {
	b, err := os.ReadFile(os.Getenv("VERIF_REPLAY_FILE"))
	if err != nil {
		t.Skip("no replay file")
	}
	var doc struct {
		Params struct {
			Ghost map[string]string `json:"$ghost"`
		} `json:"params"`
	}
	if err := json.Unmarshal(b, &doc); err != nil {
		t.Fatal(err)
	}
	size, _ := strconv.ParseInt(doc.Params.Ghost["fileSize"], 10, 64)
	pos, _ := strconv.ParseInt(doc.Params.Ghost["filePos"], 10, 64)
	if size > 1<<20 {
		t.Skipf("model file too large to replay (%d bytes)", size)
	}
	content := make([]byte, size)
	for i := range content {
		if v, ok := doc.Params.Ghost[fmt.Sprintf("fileContent[%d]", i)]; ok {
			n, _ := strconv.ParseInt(v, 10, 64)
			content[i] = byte(n)
		}
	}
	for k := 0; k < 64; k++ {
		if v, ok := doc.Params.Ghost[fmt.Sprintf("fileContent[pos+%d]", k)]; ok && pos+int64(k) < size && pos+int64(k) >= 0 {
			n, _ := strconv.ParseInt(v, 10, 64)
			content[pos+int64(k)] = byte(n)
		}
	}
	fp := filepath.Join(t.TempDir(), "WALFile.1.walfile")
	if err := os.WriteFile(fp, content, 0o600); err != nil {
		t.Fatal(err)
	}
	f, err := os.OpenFile(fp, os.O_RDWR, 0o600)
	if err != nil {
		t.Fatal(err)
	}
	if _, err := f.Seek(pos, 0); err != nil {
		t.Skipf("cannot seek to model position %d", pos)
	}
	t.Logf("ghost file: size=%d pos=%d content=%v", size, pos, content)
	return f, pos
}

func TestVerifReplay(t *testing.T) {
	f, _ := verifReplayGhostFile(t)
	defer f.Close()
	wf := &WALFileType{FilePtr: f}
	defer func() {
		if r := recover(); r != nil {
			t.Fatalf("VERIF-REPLAY-FAIL: readTGData panicked: %v", r)
		}
	}()
	id, data, err := wf.readTGData()
	t.Logf("readTGData -> id=%d len=%d err=%v", id, len(data), err)
	if err != nil && (data != nil || id != 0) {
		t.Fatalf("VERIF-REPLAY-FAIL: readTGData returned data together with an error")
	}
	if err == nil && len(data) < 8 {
		t.Fatalf("VERIF-REPLAY-FAIL: readTGData accepted a transaction group shorter than its ID")
	}
}
