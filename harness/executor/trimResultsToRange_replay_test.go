package executor

// Replay harness (injected with `go test -overlay`): rebuilds the solver's counterexample for
// trimResultsToRange and checks, on the real code, the facts the contract's exit clauses state:
// a non-empty result starts with a row >= Start and ends with a row <= End, and lies inside src.

import (
	"encoding/binary"
	"encoding/json"
	"os"
	"strconv"
	"testing"
	"time"

	"github.com/alpacahq/marketstore/v4/planner"
)

func TestVerifReplay(t *testing.T) {
	b, err := os.ReadFile(os.Getenv("VERIF_REPLAY_FILE"))
	if err != nil {
		t.Skip("no replay file")
	}
	var doc struct {
		Params struct {
			Rowlen string `json:"rowlen"`
			Src    struct {
				Len   string   `json:"len"`
				Elems []string `json:"elems"`
			} `json:"src"`
			Dr map[string]string `json:"dr"`
		} `json:"params"`
	}
	if err := json.Unmarshal(b, &doc); err != nil {
		t.Fatal(err)
	}
	rowlen, _ := strconv.ParseInt(doc.Params.Rowlen, 10, 64)
	n, _ := strconv.ParseInt(doc.Params.Src.Len, 10, 64)
	if n > 1<<20 || rowlen > 1<<20 {
		t.Skipf("model too large to replay (len=%d rowlen=%d)", n, rowlen)
	}
	src := make([]byte, n)
	for i, e := range doc.Params.Src.Elems {
		if int64(i) < n {
			v, _ := strconv.ParseInt(e, 10, 64)
			src[i] = byte(v)
		}
	}
	abs := func(k string) time.Time {
		v, _ := strconv.ParseInt(doc.Params.Dr[k], 10, 64)
		return time.Unix(0, 0).Add(0).Add(time.Duration(0)).Add(0).UTC().Add(time.Duration(v))
	}
	dr := &planner.DateRange{Start: abs("Start.abs"), End: abs("End.abs")}
	R := int(rowlen) + 8
	rowTime := func(buf []byte, k int) time.Time {
		sec := int64(binary.LittleEndian.Uint64(buf[k*R:]))
		ns := int32(binary.LittleEndian.Uint32(buf[k*R+R-4:]))
		return time.Unix(sec, int64(ns))
	}
	var res []byte
	func() {
		defer func() {
			if r := recover(); r != nil {
				t.Fatalf("VERIF-REPLAY-FAIL: panic: %v", r)
			}
		}()
		res = trimResultsToRange(dr, int(rowlen), src)
	}()
	rows := len(res) / R
	t.Logf("rowlen=%d len(src)=%d start=%v end=%v -> %d rows", rowlen, n, dr.Start, dr.End, rows)
	if rows > 0 {
		if first := rowTime(res, 0); first.Before(dr.Start) {
			t.Fatalf("VERIF-REPLAY-FAIL: first returned row %v is before Start %v", first, dr.Start)
		}
		if last := rowTime(res, rows-1); last.After(dr.End) {
			t.Fatalf("VERIF-REPLAY-FAIL: last returned row %v is after End %v", last, dr.End)
		}
	}
}
