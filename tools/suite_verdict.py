#!/usr/bin/env python3
# verdict of a `go test -json ./...` log against the pinned suite (stable_pass in /root/.vp/BASELINE.json);
# tests outside the pinned list (network feeders etc.) are ignored
import json, sys
stable = set(json.load(open('/root/.vp/BASELINE.json'))['stable_pass'])
passed, failed = set(), set()
for l in open(sys.argv[1]):
    try:
        e = json.loads(l)
    except Exception:
        continue
    if e.get('Test') and e.get('Action') in ('pass', 'fail'):
        k = e['Package'] + '::' + e['Test']
        (passed if e['Action'] == 'pass' else failed).add(k)
bad = sorted((stable & failed) | (stable - passed - failed))
print(('pass: all %d pinned tests pass' % len(stable & passed)) if not bad else 'FAIL: ' + ' '.join(bad[:6]))
