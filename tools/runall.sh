#!/bin/sh
# runs every registered quick check once (sequentially) and reports; evidence/<id>.json is rewritten by each
cd "$(dirname "$0")/.." || exit 2
rc=0
for p in $(python3 -c "import json;print(' '.join(c['property_id'] for c in json.load(open('MANIFEST.json'))['checks']))"); do
  out=$(bin/check "$p" --tier quick 2>&1); r=$?
  echo "$p exit=$r $(echo "$out" | tail -1)"
  echo "$out" | grep -E '^(VIOLATION|KNOWN-FINDING)' | cut -c1-200
  [ $r -ne 0 ] && rc=1
done
exit $rc
