#!/usr/bin/env python3
"""Operator mutants for the functions under contract (my own mutation testing, not the seeded changes).
usage: tools/mutate.py <prop> <repo-relative file> <func name regex> <outdir> [max]
Writes <outdir>/<prop>_auto_<func>_<n>.patch, one single-token mutation each (relational operators, +/-,
&&/||, off-by-one constants). Each patch applies to /repo HEAD. Comments and strings are skipped crudely."""
import re, sys, subprocess, os, random
prop, path, fre, outdir = sys.argv[1:5]
maxn = int(sys.argv[5]) if len(sys.argv) > 5 else 12
src = open('/repo/' + path).read().split('\n')
# find function ranges
funcs = []
i = 0
while i < len(src):
    m = re.match(r'^func\s+(\([^)]*\)\s*)?([A-Za-z0-9_]+)\s*\(', src[i])
    if m and re.search(fre, m.group(2)):
        j = i
        while j < len(src) and not src[j].startswith('}'):
            j += 1
        funcs.append((m.group(2), i + 1, j))
        i = j
    i += 1
muts = [(r' < ', ' <= '), (r' <= ', ' < '), (r' > ', ' >= '), (r' >= ', ' > '), (r' == ', ' != '), (r' != ', ' == '),
        (r' \+ ', ' - '), (r' - ', ' + '), (r' && ', ' || '), (r' \|\| ', ' && '), (r'\+\+', '--'), (r' \+= ', ' -= '),
        (r'\b0\b', '1'), (r'\b1\b', '2'), (r'\b8\b', '7')]
cands = []
for name, a, b in funcs:
    for ln in range(a, b):
        line = src[ln]
        code = line.split('//')[0]
        if '"' in code or code.strip().startswith(('log.', 'return fmt', 'return nil, fmt')):
            continue
        for pat, rep in muts:
            for m in re.finditer(pat, code):
                cands.append((name, ln, m.start(), m.end(), rep))
random.seed(7)
random.shuffle(cands)
os.makedirs(outdir, exist_ok=True)
n = 0
for name, ln, s, e, rep in cands:
    if n >= maxn:
        break
    new = list(src)
    new[ln] = src[ln][:s] + rep + src[ln][e:]
    tmp = '/var/tmp/mutate_new.go'
    open(tmp, 'w').write('\n'.join(new))
    d = subprocess.run(['diff', '-u', '--label', 'a/' + path, '--label', 'b/' + path, '/repo/' + path, tmp], capture_output=True, text=True).stdout
    if not d:
        continue
    # must still compile (gofmt -e parses; full build is done by selftest/one)
    if subprocess.run(['gofmt', '-e', tmp], capture_output=True).returncode != 0:
        continue
    n += 1
    open('%s/%s_auto_%s_%d.patch' % (outdir, prop, name, n), 'w').write(d)
print(n, 'mutants for', [f[0] for f in funcs])
