#!/bin/sh
# Confirms a seeded change in a scratch worktree of /repo HEAD (under /var/tmp, removed afterwards):
#   1. patch applies and `go build ./...` succeeds, 2. the whole existing test suite passes with the patch
#   (demo absent), 3. the demonstration fails with the patch, 4. the demonstration passes without it.
# Usage: tools/confirm_seed.sh <Cxx> [patchfile]    (default patch: patch_adapted_to_fixed_tree.diff if present, else patch.diff)
# The outcome is written to seeded/<Cxx>/confirmed.json.
export GOFLAGS=-mod=mod GOPROXY=off GOSUMDB=off GOTOOLCHAIN=local
cd "$(dirname "$0")/.." || exit 2
id=$1
sd=$PWD/seeded/$id
patch=$2
if [ -z "$patch" ]; then
  patch=$sd/patch.diff
  [ -f "$sd/patch_adapted_to_fixed_tree.diff" ] && patch=$sd/patch_adapted_to_fixed_tree.diff
fi
demo=$sd/demo_test.go
[ -f "$sd/demo_adapted_test.go" ] && demo=$sd/demo_adapted_test.go
dir=$(python3 -c "import json;print(json.load(open('$sd/meta.json')).get('demo_dir','').strip('./'))")
run=$(python3 -c "
import json,re
m=json.load(open('$sd/meta.json')); r=m.get('demo_run','')
x=re.search(r'-run\s+(\S+)',r); print(x.group(1).strip('\'\"') if x else 'TestDemo')")
wt=/var/tmp/verif-seed-$id-$$
git -C /repo worktree add -q --detach "$wt" HEAD || exit 2
trap 'git -C /repo worktree remove --force "$wt" 2>/dev/null; rm -rf "$wt"' EXIT
res() { python3 - "$@" <<'E'
import json,sys
p,k,v=sys.argv[1],sys.argv[2],sys.argv[3]
try: d=json.load(open(p))
except Exception: d={}
d[k]=v
json.dump(d,open(p,'w'),indent=1)
E
}
out=$sd/confirmed.json
rm -f "$out"
res "$out" patch "$(basename "$patch")"
res "$out" repo_head "$(git -C /repo rev-parse --short HEAD)"
if ! git -C "$wt" apply "$patch"; then res "$out" applies no; echo "$id: patch does not apply"; exit 1; fi
res "$out" applies yes
if (cd "$wt" && go build ./... 2>&1 | tail -3); [ -n "$(cd "$wt" && go build ./... 2>&1)" ]; then res "$out" builds no; echo "$id: does not build"; exit 1; fi
res "$out" builds yes
t0=$(date +%s)
(cd "$wt" && go test -p 3 -json -vet=off -count=1 -timeout 25m ./... > "$wt/.suite.json" 2>/dev/null)
verdict=$(python3 tools/suite_verdict.py "$wt/.suite.json")
res "$out" suite_with_patch "$verdict ($(( $(date +%s) - t0 )) s; go test -json -vet=off -count=1 ./...)"
case "$verdict" in FAIL*) echo "$id: existing suite fails with the patch: $verdict";; esac
cp "$demo" "$wt/$dir/zz_seed_demo_test.go"
if (cd "$wt" && go test -vet=off -count=1 -timeout 10m -run "$run" "./$dir/" > "$wt/.demo1.log" 2>&1); then
  res "$out" demo_with_patch "PASSES (seed not demonstrated)"; echo "$id: demo passes with the patch"
else
  res "$out" demo_with_patch "fails as expected: $(grep -E -- '--- FAIL|panic:' "$wt/.demo1.log" | head -2 | tr '\n' ' ')"
fi
git -C "$wt" apply -R "$patch"
if (cd "$wt" && go test -vet=off -count=1 -timeout 10m -run "$run" "./$dir/" > "$wt/.demo2.log" 2>&1); then
  res "$out" demo_without_patch "passes"
else
  res "$out" demo_without_patch "FAILS: $(grep -E -- '--- FAIL|panic:|cannot|undefined' "$wt/.demo2.log" | head -3 | tr '\n' ' ')"; echo "$id: demo fails without the patch"
fi
cat "$out"
