#!/usr/bin/env python3
"""Generates /verif/MANIFEST.json from tools/claims.json (one entry per property)."""
import json, os, subprocess
root = os.path.dirname(os.path.dirname(os.path.abspath(__file__)))
claims = json.load(open(os.path.join(root, "tools", "claims.json")))
props = [json.loads(l)["id"] for l in open(os.path.join(root, "properties.jsonl"))]
checks, na = [], []
for pid in props:
    c = claims.get(pid)
    if c is None:
        na.append({"property_id": pid, "reason": "not yet brought under contract (work in progress)"})
        continue
    if "not_applicable" in c:
        na.append({"property_id": pid, "reason": c["not_applicable"]})
        continue
    checks.append({
        "property_id": pid,
        "quick_cmd": "bin/check %s --tier quick" % pid,
        "thorough_cmd": "bin/check %s --tier thorough" % pid,
        "evidence_file": "/verif/evidence/%s.json" % pid,
        "replay_cmd_template": "bin/check --replay {path}",
        "engine": "govc",
        "level_claimed": {"category": c.get("category", "proof"), "text": c["text"], "design_ref": c.get("design_ref", "DESIGN.md §6 " + pid)},
        "level_note": c["note"],
        "technique": c.get("technique", "contract-based deductive verification: weakest-precondition VCs over go/ssa of the real functions, discharged by z3/cvc5"),
    })
try:
    hooks = subprocess.check_output(["git", "-C", "/repo", "log", "--format=%H %s", "--grep=^verif:"], text=True).strip().split("\n")
    hooks = [h.split()[0] for h in hooks if h]
except Exception:
    hooks = []
m = {
    "version": 1,
    "setup_cmd": "cd /verif/govc && GOFLAGS=-mod=mod GOPROXY=off GOSUMDB=off GOTOOLCHAIN=local go build -o /verif/bin/govc ./cmd/govc",
    "hooks": {
        "guard": "verif",
        "enable": "Go build tag: -tags=verif. Only govc's package loader and the injected replay tests use it; the guarded files (zz_verif_*.go) hold contracts as //@ comments, lemma functions and canaries.",
        "baseline_off_cmd": "cd /repo && GOFLAGS=-mod=mod GOPROXY=off GOSUMDB=off go test -vet=off -count=1 -timeout 25m ./...",
        "source_commits": hooks,
        "add_only": True,
    },
    "engines": [{"name": "govc", "path": "/verif/govc", "serves_properties": [c["property_id"] for c in checks],
                 "kind_free_text": "verification-condition generator for Go written for this task: loads /repo with go/packages (-tags=verif), builds go/ssa, reads //@ contracts from zz_verif_*.go, generates one SMT-LIB obligation per contract clause / implicit panic condition, races z3 4.8.12, z3 5.1.0 and cvc5 1.0.3, replays sat models on the real code through go test -overlay"}],
    "checks": checks,
    "not_applicable": na,
    "notes": "See DESIGN.md. Known findings: known_findings.json. Baseline obligation names: baseline/<id>.json. Self-test corpus: selftest/run.",
}
json.dump(m, open(os.path.join(root, "MANIFEST.json"), "w"), indent=1)
print("checks:", len(checks), "not_applicable:", len(na))
