#!/bin/sh
# regenerates baseline/<id>.json for every registered property (run after contract or engine naming changes)
cd "$(dirname "$0")/.." || exit 2
for p in $(python3 -c "import json;print(' '.join(c['property_id'] for c in json.load(open('MANIFEST.json'))['checks']))") "$@"; do
  bin/govc baseline -prop "$p" | tail -1
done
