package timemodel

// Sanity test of the TRUSTED time model used by the contracts (utils/zz_verif_stdlib.go, utils/zz_verif_timeframe.go in
// /repo): every axiom is evaluated on package time itself for random instants, fixed-offset zones and candle durations.
// This is not part of any proof; it guards the axioms against being wrong about the library (an axiom that failed here
// would make proofs unsound, one that is inconsistent would make them vacuous — the real calendar is a model of all of
// them if this test passes). Run: cd /verif/tools/timemodel && GOFLAGS=-mod=mod GOTOOLCHAIN=local go test -count=1 ./...

import (
	"math/big"
	"math/rand"
	"testing"
	"time"
)

const dayNs = 86400000000000

var zeroOffsetNs = new(big.Int).Mul(big.NewInt(62135596800), big.NewInt(1000000000)) // Z: year 1 -> 1970 in ns

func abs(t time.Time) int64 { return t.UnixNano() }

func civilDate(y int, m time.Month, d int, l *time.Location) int64 {
	return time.Date(y, m, d, 0, 0, 0, 0, l).UnixNano()
}

func randInstant(r *rand.Rand, l *time.Location) time.Time {
	// years 1700..2250: UnixNano is defined (±292 years around 1970)
	sec := r.Int63n(2*8_000_000_000) - 8_000_000_000
	return time.Unix(sec, r.Int63n(1_000_000_000)).In(l)
}

func TestCalendarAxioms(t *testing.T) {
	r := rand.New(rand.NewSource(1))
	for i := 0; i < 200000; i++ {
		off := (r.Intn(2*14*4+1) - 14*4) * 900 // quarter-hour offsets within ±14 h
		l := time.FixedZone("z", off)
		ts := randInstant(r, l)
		a := abs(ts)
		y, m, d := ts.Date()
		// #yearBracket / #yearUnique / #yearLen / #midnight
		ys, yn := civilDate(y, 1, 1, l), civilDate(y+1, 1, 1, l)
		if !(ys <= a && a < yn) {
			t.Fatalf("yearBracket %v", ts)
		}
		if n := yn - ys; n != 365*dayNs && n != 366*dayNs {
			t.Fatalf("yearLen %v", ts)
		}
		// #yearDay (fixed-offset zone)
		if ts.YearDay() != int(1+(a-ys)/dayNs) {
			t.Fatalf("yearDay %v", ts)
		}
		// #dayBracket
		ds := civilDate(y, m, d, l)
		if !(ds <= a && a < ds+dayNs) {
			t.Fatalf("dayBracket %v", ts)
		}
		// #monthBracket
		if !(1 <= m && m <= 12 && civilDate(y, m, 1, l) <= a) {
			t.Fatalf("monthBracket lower %v", ts)
		}
		if m < 12 && !(a < civilDate(y, m+1, 1, l)) || m == 12 && !(a < civilDate(y+1, 1, 1, l)) {
			t.Fatalf("monthBracket upper %v", ts)
		}
		// #dateInverse at the dates the bracket axioms call valid
		for _, c := range [][3]int{{y, int(m), d}, {y, int(m), 1}, {y + 1, 1, 1}} {
			s := time.Date(c[0], time.Month(c[1]), c[2], 0, 0, 0, 0, l)
			yy, mm, dd := s.Date()
			if yy != c[0] || int(mm) != c[1] || dd != c[2] {
				t.Fatalf("dateInverse %v", c)
			}
		}
		// AddDate(0,0,k) == +k days (fixed-offset zone)
		k := r.Intn(800) - 400
		if abs(ts.AddDate(0, 0, k)) != a+int64(k)*dayNs {
			t.Fatalf("addDays %v %d", ts, k)
		}
		// calendarYearsSpan: k consecutive years last at least k*365 days
		kk := r.Intn(50)
		if civilDate(y+kk, 1, 1, l)-ys < int64(kk)*365*dayNs {
			t.Fatalf("yearsSpan %v %d", ts, kk)
		}
	}
}

func TestTruncateAndISOWeekModel(t *testing.T) {
	r := rand.New(rand.NewSource(2))
	durs := []time.Duration{time.Second, 7 * time.Second, time.Minute, 90 * time.Minute, time.Hour, 24 * time.Hour, 7 * 24 * time.Hour, 365 * 24 * time.Hour, 3 * 365 * 24 * time.Hour}
	week := big.NewInt(7 * dayNs)
	for i := 0; i < 200000; i++ {
		off := (r.Intn(2*14*4+1) - 14*4) * 900
		l := time.FixedZone("z", off)
		ts := randInstant(r, l)
		d := durs[r.Intn(len(durs))]
		// Truncate: abs - mod(abs + Z, d), location kept
		z := new(big.Int).Add(big.NewInt(abs(ts)), zeroOffsetNs)
		rem := new(big.Int).Mod(z, big.NewInt(int64(d))) // Euclidean: non-negative
		want := new(big.Int).Sub(big.NewInt(abs(ts)), rem)
		got := ts.Truncate(d)
		if big.NewInt(abs(got)).Cmp(want) != 0 || got.Location() != ts.Location() {
			t.Fatalf("Truncate model: %v %v got %v", ts, d, got)
		}
		// ISO weeks: same (year, week) iff same Monday-based civil week counted from the zero time
		u := randInstant(r, l)
		if r.Intn(2) == 0 {
			u = ts.Add(time.Duration(r.Int63n(int64(14*24*time.Hour))) - 7*24*time.Hour)
		}
		key := func(x time.Time) *big.Int {
			v := new(big.Int).Add(big.NewInt(abs(x)), big.NewInt(int64(off)*1000000000))
			v.Add(v, zeroOffsetNs)
			return v.Div(v, week) // Euclidean division = floor for a positive divisor
		}
		y1, w1 := ts.ISOWeek()
		y2, w2 := u.ISOWeek()
		if (y1 == y2 && w1 == w2) != (key(ts).Cmp(key(u)) == 0) {
			t.Fatalf("ISO week model: %v %v", ts, u)
		}
	}
}
