module verif/timemodel

go 1.23
