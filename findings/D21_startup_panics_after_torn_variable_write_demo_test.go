// Directory: executor/   Run (from repo root): GOFLAGS=-mod=mod GOPROXY=off GOSUMDB=off GOTOOLCHAIN=local go test -vet=off -count=1 -run 'TestD21' -v ./executor/
//
// D21: a process crash between the data write and the index write of a variable-length
// "continuation" write (WriteBufferToFileIndirect, executor/writer.go) leaves the interval's
// 24-byte index record {index, offset, len} pointing at the first <len> bytes of a LARGER,
// newer snappy block. The committed-but-not-checkpointed WAL is replayed at the next start-up,
// WriteBufferToFileIndirect fails to snappy-decode the "old" data, returns a plain error,
// CleanupOldWALFiles returns it (it only tolerates wal.ReplayError) and internal/di panics:
// "unable to startup Cache and WAL". The WAL stays in place, so every later start-up panics too.
package executor_test

import (
	"bytes"
	"errors"
	"os"
	"path/filepath"
	"testing"
	"time"

	"github.com/stretchr/testify/assert"
	"github.com/stretchr/testify/require"

	"github.com/alpacahq/marketstore/v4/executor"
	"github.com/alpacahq/marketstore/v4/executor/wal"
	"github.com/alpacahq/marketstore/v4/internal/di"
	"github.com/alpacahq/marketstore/v4/planner"
	"github.com/alpacahq/marketstore/v4/utils"
	"github.com/alpacahq/marketstore/v4/utils/io"
)

// crashOnSecondWrite lets the first Write (the compressed data) through to the real file and
// "kills the process" at the second Write (the 24-byte index record): nothing is written.
type crashOnSecondWrite struct {
	*os.File
	writes int
}

var errD21Crash = errors.New("d21: simulated process crash before the index write")

func (c *crashOnSecondWrite) Write(p []byte) (int, error) {
	c.writes++
	if c.writes >= 2 {
		return 0, errD21Crash
	}
	return c.File.Write(p)
}

// d21LastTG walks a WAL image and returns the serialized body of the last TGDATA message.
func d21LastTG(t *testing.T, walImage []byte) []byte {
	t.Helper()
	var last []byte
	for cur := 0; cur < len(walImage); {
		mid := executor.MIDEnum(walImage[cur])
		cur++
		switch mid {
		case executor.STATUS, executor.TXNINFO:
			cur += 10 // status: 1+1+8, txninfo: 8+1+1
		case executor.TGDATA:
			l := int(io.ToInt64(walImage[cur : cur+8]))
			last = walImage[cur+8 : cur+8+l]
			cur += 8 + l + 16 // len, body, md5
		default:
			require.FailNow(t, "unexpected message id in WAL image")
		}
	}
	require.NotNil(t, last)
	return last
}

type d21State struct {
	rootDir  string
	dataFile string
	walPath  string
	query    func() (int, error) // number of rows in the bucket, or the read error
}

// d21BuildCrashState builds, with the production write path, the on-disk state that a process
// crash inside FlushToWAL -> writePrimary -> WriteBufferToFileIndirect leaves behind.
func d21BuildCrashState(t *testing.T, powerLoss bool) d21State {
	t.Helper()
	rootDir, _, metadata := setup(t)

	// a variable-length (tick) bucket
	tbk := io.NewTimeBucketKey("TEST-D21/1Min/TICK")
	tf := utils.TimeframeFromString("1Min")
	dsv := io.NewDataShapeVector([]string{"Bid", "Ask"}, []io.EnumElementType{io.FLOAT32, io.FLOAT32})
	tbinfo := io.NewTimeBucketInfo(*tf, tbk.GetPathToYearFiles(rootDir), "Test", int16(2016), dsv, io.VARIABLE)
	require.Nil(t, metadata.CatalogDir.AddTimeBucket(tbk, tbinfo))
	tbi, err := metadata.CatalogDir.GetLatestTimeBucketInfoFromKey(tbk)
	require.Nil(t, err)
	writer, err := executor.NewWriter(metadata.CatalogDir, metadata.WALFile)
	require.Nil(t, err)

	query := func() (int, error) {
		q := planner.NewQuery(metadata.CatalogDir)
		q.AddRestriction("Symbol", "TEST-D21")
		q.AddRestriction("AttributeGroup", "TICK")
		q.AddRestriction("Timeframe", "1Min")
		q.SetStart(time.Date(2016, time.November, 1, 12, 0, 0, 0, time.UTC))
		parsed, err2 := q.Parse()
		if err2 != nil {
			return 0, err2
		}
		reader, err2 := executor.NewReader(parsed)
		if err2 != nil {
			return 0, err2
		}
		csm, err2 := reader.Read()
		if err2 != nil {
			return 0, err2
		}
		n := 0
		for _, cs := range csm {
			n += cs.Len()
		}
		return n, nil
	}

	// all ticks go to the same 1Min interval 2016-12-31 02:59
	minute := time.Date(2016, time.December, 31, 2, 59, 0, 0, time.UTC)
	writeTicks := func(from, n int) { // one WriteRecords call = one write command for the interval
		row := struct {
			Epoch    int64
			Bid, Ask float32
		}{}
		var (
			times []time.Time
			buf   []byte
		)
		for i := from; i < from+n; i++ {
			ts := minute.Add(time.Duration(i+1) * 100 * time.Millisecond)
			row.Epoch, row.Bid, row.Ask = ts.Unix(), float32(100+7*i), float32(200+13*i)
			times = append(times, ts)
			buf, _ = io.Serialize(buf, row)
		}
		require.Nil(t, writer.WriteRecords(times, buf, dsv, tbi))
	}

	// (1) first write to the interval: committed, applied, checkpointed. Durable and queryable.
	writeTicks(0, 20)
	require.Nil(t, metadata.WALFile.FlushToWAL())
	require.Nil(t, metadata.WALFile.CreateCheckpoint())
	n, err := query()
	require.Nil(t, err)
	require.Equal(t, 20, n)

	dataFile := tbi.Path
	before, err := os.ReadFile(dataFile) // F0: primary file before the second write
	require.Nil(t, err)
	index := io.TimeToIndex(minute, tbi.GetTimeframe())
	idxOff := io.IndexToOffset(index, tbi.GetRecordLength()) // position of the 24-byte index record
	oldRec := append([]byte{}, before[idxOff:idxOff+24]...)
	oldOffset, oldLen := io.ToInt64(oldRec[8:]), io.ToInt64(oldRec[16:])
	require.Equal(t, index, io.ToInt64(oldRec))
	// the interval's data is the last thing in the file, so the next write to it is a "continuation"
	// write: WriteBufferToFileIndirect seeks back to oldOffset and overwrites the old block in place.
	require.Equal(t, int64(len(before)), oldOffset+oldLen)

	// (2) second write to the SAME interval. FlushToWAL = write TG + COMMITCOMPLETE to the WAL, fsync
	// the WAL, and only then apply the TG to the primary file. No checkpoint is written.
	writeTicks(20, 20)
	require.Nil(t, metadata.WALFile.FlushToWAL())
	walPath := metadata.WALFile.FilePtr.Name()
	walImage, err := os.ReadFile(walPath) // exactly what is on disk when the primary write starts
	require.Nil(t, err)
	after, err := os.ReadFile(dataFile) // F1: primary file after the complete second write
	require.Nil(t, err)
	newOffset, newLen := io.ToInt64(after[idxOff+8:]), io.ToInt64(after[idxOff+16:])
	require.Equal(t, oldOffset, newOffset, "continuation write re-uses the old offset")
	require.Greater(t, newLen, oldLen)

	// (3) the crash state, produced by the production code itself: put F0 back, then re-run the primary
	// write of the committed TG with a file that dies at the second Write call (the index write).
	require.Nil(t, os.WriteFile(dataFile, before, 0o600))
	_, wtSets := executor.ParseTGData(d21LastTG(t, walImage), rootDir)
	require.Len(t, wtSets, 1)
	require.Equal(t, dataFile, wtSets[0].FilePath)
	fp, err := os.OpenFile(dataFile, os.O_RDWR, 0o600)
	require.Nil(t, err)
	err = executor.WriteBufferToFileIndirect(&crashOnSecondWrite{File: fp}, wtSets[0].Buffer, wtSets[0].VarRecLen)
	require.ErrorIs(t, err, errD21Crash)
	require.Nil(t, fp.Close())

	// the same state, built by hand: the complete second write with the OLD index record put back.
	crashed, err := os.ReadFile(dataFile)
	require.Nil(t, err)
	byHand := append([]byte{}, after...)
	copy(byHand[idxOff:], oldRec)
	require.True(t, bytes.Equal(byHand, crashed), "torn write == full second write with the old index record")
	// the old index record now points at a strict prefix of the new, larger snappy block
	require.False(t, bytes.Equal(before[oldOffset:oldOffset+oldLen], crashed[oldOffset:oldOffset+oldLen]))

	if powerLoss {
		// Variant: machine crash / power loss instead of a process crash. Nothing is fsynced between the two
		// Write calls (the next sync is the checkpoint), so the kernel may have written back the page holding
		// the new index record but not the new data block / file extension: F0 with the NEW index record.
		// The record then reaches past the end of the file.
		reordered := append([]byte{}, before...)
		copy(reordered[idxOff:], after[idxOff:idxOff+24])
		require.Nil(t, os.WriteFile(dataFile, reordered, 0o600))
	}

	// The WAL on disk is the one of the dead process: TG data + WAL COMMITCOMPLETE, no checkpoint record,
	// replay state NOTREPLAYED. (It is byte-identical to walImage; nothing to craft.)
	onDisk, err := os.ReadFile(walPath)
	require.Nil(t, err)
	require.True(t, bytes.Equal(walImage, onDisk))

	return d21State{rootDir: rootDir, dataFile: dataFile, walPath: walPath, query: query}
}

// Start-up after the crash must not refuse to start.
func TestD21_StartupAfterTornVariableWrite(t *testing.T) {
	st := d21BuildCrashState(t, false)
	d21Startup(t, st)
}

// Same, for the power-loss reordering (index record persisted, data block not).
func TestD21_StartupAfterPowerLossReordering(t *testing.T) {
	d21Startup(t, d21BuildCrashState(t, true))
}

func d21Startup(t *testing.T, st d21State) {
	t.Helper()

	// The start-up path of internal/di.GetInitWALFile, spelled out: a new WAL file for the new process,
	// then find and replay the leftovers.
	newWAL, err := executor.NewWALFile(st.rootDir, time.Now().UTC().UnixNano(), nil, false, nil,
		executor.StartNewTriggerPluginDispatcher(nil), executor.NewTransactionPipe())
	require.Nil(t, err)
	walFiles, err := wal.NewFinder(os.ReadDir).Find(filepath.Clean(st.rootDir))
	require.Nil(t, err)
	require.Contains(t, walFiles, st.walPath)

	err = executor.NewWALCleaner(newWAL.FilePtr.Name(), newWAL.OwningInstanceID).CleanupOldWALFiles(walFiles)
	if err != nil {
		var re wal.ReplayError
		t.Logf("CleanupOldWALFiles error (is wal.ReplayError: %v): %v", errors.As(err, &re), err)
	}
	assert.Nil(t, err, "internal/di panics with 'unable to startup Cache and WAL' on any error returned here")

	// And literally what the server does when it starts on this root directory. The failed replay leaves
	// the WAL in place (state REPLAYINPROCESS, still 'needs replay'), so this keeps panicking on every start.
	cfg := utils.NewDefaultConfig(st.rootDir)
	cfg.BackgroundSync = false
	assert.NotPanics(t, func() { di.NewContainer(cfg).GetInitWALFile() })
}

// The second half of the property: the bucket that existed before the crash can still be queried.
// Independent of the WAL: the reader follows the same stale index record.
func TestD21_BucketReadableAfterTornVariableWrite(t *testing.T) {
	st := d21BuildCrashState(t, false)
	n, err := st.query()
	assert.Nil(t, err, "query of a bucket that was durable and readable before the crash")
	t.Logf("rows=%d err=%v", n, err)
}
