package utils_test

// D20 demo (C31): for a weekly candle duration in a zone east of UTC, a timestamp early on a local Monday is not
// reported as inside its own window. CandleDuration.Truncate("1W") rounds down to Monday 00:00 *UTC* (time.Truncate
// counts from the zero time), which in UTC+9 is Monday 09:00 local; IsWithin compares ISO weeks in local time, so a
// timestamp on Monday 03:00 local (Sunday 18:00 UTC) is truncated into the previous local ISO week.
// Run (from a checkout of the repository): copy into utils/ and
//   go test -vet=off -count=1 -run TestD20WeeklyWindowNonUTC ./utils/

import (
	"testing"
	"time"

	"github.com/alpacahq/marketstore/v4/utils"
)

func TestD20WeeklyWindowNonUTC(t *testing.T) {
	cd, err := utils.CandleDurationFromString("1W")
	if err != nil {
		t.Fatal(err)
	}
	jst := time.FixedZone("UTC+9", 9*3600)
	ts := time.Date(2021, 3, 8, 3, 0, 0, 0, jst) // a Monday, 03:00 local = Sunday 18:00 UTC
	start := cd.Truncate(ts)
	if start.After(ts) {
		t.Fatalf("window start %v after timestamp %v", start, ts)
	}
	if !cd.IsWithin(ts, start) {
		y1, w1 := ts.ISOWeek()
		y2, w2 := start.ISOWeek()
		t.Fatalf("timestamp %v (ISO week %d-%d) is not inside its own window starting %v (ISO week %d-%d)", ts, y1, w1, start, y2, w2)
	}
	// the same instant in UTC is inside its window
	if u := ts.UTC(); !cd.IsWithin(u, cd.Truncate(u)) {
		t.Fatalf("UTC control failed")
	}
}
