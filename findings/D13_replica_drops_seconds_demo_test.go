package replication

import (
	"encoding/binary"
	"testing"
	"time"

	"github.com/alpacahq/marketstore/v4/executor"
	"github.com/alpacahq/marketstore/v4/executor/wal"
	"github.com/alpacahq/marketstore/v4/utils/io"
)

// A variable-length (tick) record of a 1Min bucket written 17.5 s into its interval: the master's reader
// (executor.RewriteBuffer) decodes it to intervalStart+17 s, 500000000 ns; the replica must store the same time.
func TestDemoD13ReplicaKeepsSecondsInsideInterval(t *testing.T) {
	intervalStart := time.Date(2021, 3, 4, 10, 15, 0, 0, time.UTC)
	index := io.TimeToIndex(intervalStart, time.Minute)
	ts := intervalStart.Add(17*time.Second + 500*time.Millisecond)
	ticks := io.GetIntervalTicks32Bit(ts, index, 1440)

	// one record: Ask(float32) Bid(float32) + 4 bytes of interval ticks
	rec := make([]byte, 12)
	binary.LittleEndian.PutUint32(rec[8:], ticks)
	buf := make([]byte, 16+len(rec)) // offset(8) index(8) payload
	binary.LittleEndian.PutUint64(buf[8:], uint64(index))
	copy(buf[16:], rec)

	masterRows := executor.RewriteBuffer(rec, 12, 1, 1440, uint64(intervalStart.Unix()))
	masterSec := int64(binary.LittleEndian.Uint64(masterRows[0:8]))
	masterNs := int32(binary.LittleEndian.Uint32(masterRows[16:20]))

	wt := &wal.WTSet{RecordType: io.VARIABLE, FilePath: "/data/AAPL/1Min/TICK/2021.bin", DataLen: 12, VarRecLen: 12, Buffer: buf,
		DataShapes: []io.DataShape{{Name: "Epoch", Type: io.INT64}, {Name: "Ask", Type: io.FLOAT32}, {Name: "Bid", Type: io.FLOAT32}}}
	cs, _, err := wtSetToCS(wt)
	if err != nil {
		t.Fatal(err)
	}
	repSec := cs.GetEpoch()[0]
	repNs := cs.GetColumn("Nanoseconds").([]int32)[0]
	t.Logf("written %v; master reads %d.%09d; replica stores %d.%09d", ts, masterSec, masterNs, repSec, repNs)
	if repSec != masterSec || repNs != masterNs {
		t.Fatalf("replica stores %d.%09d, master reads %d.%09d (difference %d s)", repSec, repNs, masterSec, masterNs, masterSec-repSec)
	}
}
