package loader

import (
	"os"
	"path/filepath"
	"testing"

	"github.com/alpacahq/marketstore/v4/utils/io"
)

// A CSV row with a wrong number of fields is a read error (csv.ErrFieldCount): the import must report it, not end
// "successfully" with the rows read so far.
func TestDemoD15MalformedRowIsNotEOF(t *testing.T) {
	dir := t.TempDir()
	data := filepath.Join(dir, "data.csv")
	ctl := filepath.Join(dir, "ctl.yaml")
	os.WriteFile(data, []byte("Epoch,Open\n20210104 09:30:00,1.5\n20210104 09:31:00,2.5,EXTRA\n20210104 09:32:00,3.5\n"), 0o600)
	os.WriteFile(ctl, []byte("firstRowHasColumnNames: true\ntimeFormat: \"20060102 15:04:05\"\n"), 0o600)
	dfd, _ := os.Open(data)
	cfd, _ := os.Open(ctl)
	defer dfd.Close()
	defer cfd.Close()
	shapes := []io.DataShape{{Name: "Epoch", Type: io.INT64}, {Name: "Open", Type: io.FLOAT32}}
	r, cvm, err := ReadMetadata(dfd, cfd, shapes)
	if err != nil {
		t.Fatal(err)
	}
	tbk := io.NewTimeBucketKey("TEST/1Min/OHLCV")
	npm, endReached, err := CSVtoNumpyMulti(r, *tbk, cvm, 100, false)
	rows := -1
	if npm != nil {
		rows = npm.Len()
	}
	t.Logf("rows=%d endReached=%v err=%v", rows, endReached, err)
	if err == nil {
		t.Fatalf("a malformed row was silently treated as end of file: %d of 3 data rows loaded, endReached=%v, no error", rows, endReached)
	}
}
