package executor_test

import (
	"testing"
	"time"

	"github.com/alpacahq/marketstore/v4/executor"
	"github.com/alpacahq/marketstore/v4/internal/di"
	"github.com/alpacahq/marketstore/v4/planner"
	"github.com/alpacahq/marketstore/v4/utils"
	"github.com/alpacahq/marketstore/v4/utils/io"
)

// D22 demo (C08): WriteRecords updates prevIndex but not prevYear when it starts a new write command, so a later row of
// an unsorted request whose (index, year) equals (index of the open command, year of the FIRST row) is appended to the
// open command of another year: its record is written into the next slot of the wrong year's file.
// Run: copy into executor/ and  go test -vet=off -count=1 -run TestD22 ./executor/
// C08: a fixed-length bucket behaves like a last-writer-wins interval map.
// One write request contains rows whose intervals sit at the same position
// inside two different years (same month/day/time, different year). A query
// over all time must return one row per written interval, in ascending order,
// each carrying the values that were written to that interval.
func TestD22UnsortedRowsAcrossYears(t *testing.T) {
	rootDir := t.TempDir()
	cfg := utils.NewDefaultConfig(rootDir)
	cfg.BackgroundSync = false
	c := di.NewContainer(cfg)
	metadata := executor.NewInstanceSetup(c.GetCatalogDir(), c.GetInitWALFile())

	tbk := io.NewTimeBucketKey("DEMO/1Min/PX")

	type w struct {
		ts  time.Time
		val int64
	}
	writes := []w{
		{time.Date(2017, time.February, 3, 4, 5, 0, 0, time.UTC), 1705},
		{time.Date(2018, time.February, 3, 4, 6, 0, 0, time.UTC), 1806},
		{time.Date(2017, time.February, 3, 4, 6, 0, 0, time.UTC), 1706},
	}
	epochs := make([]int64, len(writes))
	vals := make([]int64, len(writes))
	want := map[int64]int64{}
	for i, x := range writes {
		epochs[i] = x.ts.Unix()
		vals[i] = x.val
		want[x.ts.Unix()] = x.val
	}

	cs := io.NewColumnSeries()
	cs.AddColumn("Epoch", epochs)
	cs.AddColumn("Val", vals)
	csm := io.NewColumnSeriesMap()
	csm.AddColumnSeries(*tbk, cs)

	writer, err := executor.NewWriter(metadata.CatalogDir, metadata.WALFile)
	if err != nil {
		t.Fatal(err)
	}
	if err = writer.WriteCSM(csm, false); err != nil {
		t.Fatal(err)
	}
	if err = metadata.WALFile.FlushToWAL(); err != nil {
		t.Fatal(err)
	}

	q := planner.NewQuery(metadata.CatalogDir)
	q.AddTargetKey(tbk)
	pr, err := q.Parse()
	if err != nil {
		t.Fatal(err)
	}
	rd, err := executor.NewReader(pr)
	if err != nil {
		t.Fatal(err)
	}
	out, err := rd.Read()
	if err != nil {
		t.Fatal(err)
	}
	res := out[*tbk]
	if res == nil {
		t.Fatalf("no result for %v", tbk)
	}
	gotEpochs := res.GetEpoch()
	gotVals, _ := res.GetColumn("Val").([]int64)

	if len(gotEpochs) != len(want) {
		t.Errorf("got %d rows, want %d (epochs=%v vals=%v)", len(gotEpochs), len(want), gotEpochs, gotVals)
	}
	for i, ep := range gotEpochs {
		if i > 0 && gotEpochs[i-1] >= ep {
			t.Errorf("rows not in strictly ascending time order: %v", gotEpochs)
		}
		wv, ok := want[ep]
		if !ok {
			t.Errorf("unexpected row at %v", time.Unix(ep, 0).UTC())
			continue
		}
		if gotVals[i] != wv {
			t.Errorf("interval %v carries %d, want %d", time.Unix(ep, 0).UTC(), gotVals[i], wv)
		}
		delete(want, ep)
	}
	for ep, v := range want {
		t.Errorf("written interval %v (val %d) missing from result", time.Unix(ep, 0).UTC(), v)
	}
}
