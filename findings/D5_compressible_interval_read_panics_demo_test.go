// Directory: executor/ -- run: GOFLAGS=-mod=mod go test -vet=off -count=1 -run 'TestD5' -v ./executor/
package executor_test

import (
	"encoding/binary"
	"os"
	"testing"
	"time"

	"github.com/klauspost/compress/snappy"
	"github.com/stretchr/testify/require"

	"github.com/alpacahq/marketstore/v4/executor"
	. "github.com/alpacahq/marketstore/v4/planner"
	"github.com/alpacahq/marketstore/v4/utils"
	. "github.com/alpacahq/marketstore/v4/utils/io"
)

// d5WriteAndReadBack writes numTicks ticks with identical column values into ONE 1Min interval of a
// variable-length bucket (tick i is at base + i*step, truncated to the given resolution) and reads the
// whole range back.
func d5WriteAndReadBack(t *testing.T, symbol string, numTicks int, step, resolution time.Duration) {
	t.Helper()
	require.False(t, utils.InstanceConfig.DisableVariableCompression, "compression must be enabled (default)")

	rootDir, _, metadata := setup(t)

	tbk := NewTimeBucketKey(symbol + "/1Min/TICK-BIDASK")
	tf := utils.TimeframeFromString("1Min")
	dsv := NewDataShapeVector([]string{"Bid", "Ask"}, []EnumElementType{FLOAT32, FLOAT32})
	tbinfo := NewTimeBucketInfo(*tf, tbk.GetPathToYearFiles(rootDir), "Test", int16(2016), dsv, VARIABLE)
	require.Nil(t, metadata.CatalogDir.AddTimeBucket(tbk, tbinfo))

	q := NewQuery(metadata.CatalogDir)
	q.AddRestriction("Symbol", symbol)
	q.AddRestriction("AttributeGroup", "TICK-BIDASK")
	q.AddRestriction("Timeframe", "1Min")
	q.SetStart(time.Date(2016, time.November, 1, 12, 0, 0, 0, time.UTC))
	parsed, err := q.Parse()
	require.Nil(t, err)
	tbi, err := metadata.CatalogDir.GetLatestTimeBucketInfoFromKey(tbk)
	require.Nil(t, err)
	writer, err := executor.NewWriter(metadata.CatalogDir, metadata.WALFile)
	require.Nil(t, err)

	// all ticks are in the minute 2016-12-15 02:59
	base := time.Date(2016, time.December, 15, 2, 59, 1, 0, time.UTC)
	row := struct {
		Epoch    int64
		Bid, Ask float32
	}{0, 100, 200}
	var (
		tss  []time.Time
		data []byte
	)
	for i := 0; i < numTicks; i++ {
		ts := base.Add(time.Duration(i) * step).Truncate(resolution)
		require.Equal(t, 59, ts.Minute(), "all ticks must be in the same interval")
		row.Epoch = ts.Unix()
		tss = append(tss, ts)
		data, _ = Serialize(data, row)
	}
	require.Nil(t, writer.WriteRecords(tss, data, dsv, tbi))
	require.Nil(t, metadata.WALFile.FlushToWAL())
	require.Nil(t, metadata.WALFile.CreateCheckpoint())

	// Report the compression ratio as seen by readSecondStage.
	index := TimeToIndex(base, tf.Duration)
	fp, err := os.Open(tbi.Path)
	require.Nil(t, err)
	idx := make([]byte, 24)
	_, err = fp.ReadAt(idx, IndexToOffset(index, 24))
	require.Nil(t, err)
	off := int64(binary.LittleEndian.Uint64(idx[8:]))
	clen := int64(binary.LittleEndian.Uint64(idx[16:]))
	comp := make([]byte, clen)
	_, err = fp.ReadAt(comp, off)
	require.Nil(t, err)
	fp.Close()
	raw, err := snappy.Decode(nil, comp)
	require.Nil(t, err)
	vrl := int(tbi.GetVariableRecordLength())
	rewritten := len(raw) / vrl * (vrl + 8)
	t.Logf("ticks=%d varRecLen=%d compressed=%d decompressed=%d (ratio %.1fx) rewritten=%d (ratio %.1fx); "+
		"reader buffer: initial=%d after single doubling=%d",
		numTicks, vrl, clen, len(raw), float64(len(raw))/float64(clen),
		rewritten, float64(rewritten)/float64(clen), 4*clen, 8*clen)
	require.Equal(t, numTicks, len(raw)/vrl, "all ticks are on disk")

	// Read everything back.
	reader, err := executor.NewReader(parsed)
	require.Nil(t, err)
	var csm ColumnSeriesMap
	require.NotPanics(t, func() { csm, err = reader.Read() })
	require.Nil(t, err)
	require.Len(t, csm, 1)
	for _, cs := range csm {
		require.Equal(t, numTicks, cs.Len(), "every written tick must be returned")
		epoch := cs.GetEpoch()
		nanos, ok := cs.GetColumn("Nanoseconds").([]int32)
		require.True(t, ok)
		for i := 1; i < len(epoch); i++ {
			prev := epoch[i-1]*1e9 + int64(nanos[i-1])
			cur := epoch[i]*1e9 + int64(nanos[i])
			require.LessOrEqual(t, prev, cur, "time order at row %d", i)
		}
	}
}

// Few ticks: compression is poor, the 4x estimate (plus one doubling) is enough.
func TestD5Control(t *testing.T) {
	d5WriteAndReadBack(t, "TEST-D5A", 20, time.Millisecond, time.Nanosecond)
}

// A few thousand ticks with identical column values, 10ms apart (timestamps all different):
// snappy only reaches about 2x, so the estimate is enough.
func TestD5DistinctTimestampsControl(t *testing.T) {
	d5WriteAndReadBack(t, "TEST-D5B", 3000, 10*time.Millisecond, time.Nanosecond)
}

// A few thousand identical ticks, all at the very same timestamp.
func TestD5IdenticalTicksOneInterval(t *testing.T) {
	d5WriteAndReadBack(t, "TEST-D5C", 3000, 0, time.Nanosecond)
}

// A few thousand ticks with identical column values spread over 30 seconds of one minute, with
// timestamps of one-second resolution (as many feeds deliver them).
func TestD5SecondResolutionTicksOneInterval(t *testing.T) {
	d5WriteAndReadBack(t, "TEST-D5D", 3000, 10*time.Millisecond, time.Second)
}
