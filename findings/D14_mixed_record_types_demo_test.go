package replication

import (
	"encoding/binary"
	"testing"

	"github.com/alpacahq/marketstore/v4/executor/wal"
	"github.com/alpacahq/marketstore/v4/utils/io"
)

// A transaction that mixes a fixed-length and a variable-length bucket: each write set must be written with its own
// record type on the replica.
func TestDemoD14MixedTransactionRecordTypes(t *testing.T) {
	fixedBuf := make([]byte, 16+8)
	binary.LittleEndian.PutUint64(fixedBuf[8:], 1)
	varRec := make([]byte, 12)
	varBuf := make([]byte, 16+12)
	binary.LittleEndian.PutUint64(varBuf[8:], 1)
	copy(varBuf[16:], varRec)
	sets := []wal.WTSet{
		{RecordType: io.FIXED, FilePath: "/data/AMZN/1Min/OHLC/2020.bin", DataLen: 8, Buffer: fixedBuf,
			DataShapes: []io.DataShape{{Name: "Epoch", Type: io.INT64}, {Name: "Open", Type: io.INT64}}},
		{RecordType: io.VARIABLE, FilePath: "/data/AMZN/1Sec/TICK/2020.bin", DataLen: 24, VarRecLen: 12, Buffer: varBuf,
			DataShapes: []io.DataShape{{Name: "Epoch", Type: io.INT64}, {Name: "Ask", Type: io.FLOAT32}, {Name: "Bid", Type: io.FLOAT32}}},
	}
	var got []bool
	r := NewReplayer(
		func([]byte, string) (int64, []wal.WTSet) { return 1, sets },
		func(_ io.ColumnSeriesMap, isVariable bool) error { got = append(got, isVariable); return nil },
		"/data")
	if err := r.Replay([]byte{0}); err != nil {
		t.Fatal(err)
	}
	if len(got) != 2 || got[0] != false || got[1] != true {
		t.Fatalf("write sets were written with isVariableLength=%v, want [false true]", got)
	}
}
