package executor_test

import (
	"os"
	"path/filepath"
	"testing"

	"github.com/alpacahq/marketstore/v4/executor"
)

// A WAL file whose last byte is a STATUS message id (0x02) with nothing after it makes wal.ReadStatus index
// the nil slice that wal.Read returns at EOF: startup replay panics.
func TestDemoReadStatusEOFPanics(t *testing.T) {
	dir := t.TempDir()
	fp := filepath.Join(dir, "WALFile.1.walfile")
	// status record: MID=2(STATUS), fileStatus=1(OPEN), replayState=1(NOTREPLAYED), owner pid (8 bytes) ; then a lone STATUS mid
	content := []byte{2, 1, 1, 9, 0, 0, 0, 0, 0, 0, 0, 2}
	if err := os.WriteFile(fp, content, 0o600); err != nil {
		t.Fatal(err)
	}
	defer func() {
		if r := recover(); r != nil {
			t.Fatalf("replay panicked: %v", r)
		}
	}()
	c := executor.NewWALCleaner("", 12345)
	err := c.CleanupOldWALFiles([]string{fp})
	t.Logf("CleanupOldWALFiles returned: %v", err)
}
