// Belongs in: catalog/ (package catalog_test). Run: go test -vet=off -count=1 -run 'TestD9' ./catalog/
package catalog_test

import (
	"fmt"
	"os"
	"path/filepath"
	"reflect"
	"strings"
	"testing"

	"github.com/alpacahq/marketstore/v4/catalog"
	"github.com/alpacahq/marketstore/v4/utils"
	"github.com/alpacahq/marketstore/v4/utils/io"
)

// Property: the schema a bucket is created with is exactly what the catalog reports after a restart,
// or the creation is rejected with an error.

// d9Create creates a bucket with the given columns through Directory.AddTimeBucket in a fresh root
// directory. A panic inside AddTimeBucket is reported as panicMsg instead of killing the test binary.
func d9Create(t *testing.T, names []string, types []io.EnumElementType,
) (rootDir string, tbk *io.TimeBucketKey, err error, panicMsg string) {
	t.Helper()

	rootDir = t.TempDir()
	// an empty root directory has no category_name file yet, which NewDirectory reports as an error
	// together with a usable directory (same as TestAddAndRemoveDataItemFromEmptyDirectory)
	catalogDir, _ := catalog.NewDirectory(rootDir)
	if catalogDir == nil {
		t.Fatal("failed to create a catalog directory")
	}

	const key = "TEST/1Min/D9"
	tbk = io.NewTimeBucketKey(key, io.DefaultTimeBucketSchema)
	tbinfo := io.NewTimeBucketInfo(*utils.TimeframeFromString("1Min"), tbk.GetPathToYearFiles(rootDir),
		"D9 demo", 2016, io.NewDataShapeVector(names, types), io.FIXED)

	func() {
		defer func() {
			if r := recover(); r != nil {
				panicMsg = fmt.Sprint(r)
			}
		}()
		err = catalogDir.AddTimeBucket(tbk, tbinfo)
	}()
	return rootDir, tbk, err, panicMsg
}

// d9ReadBack builds a fresh catalog from the root directory (what a restart does) and returns the
// column names and types the bucket reports.
func d9ReadBack(t *testing.T, rootDir string, tbk *io.TimeBucketKey) ([]string, []io.EnumElementType) {
	t.Helper()

	restarted, err := catalog.NewDirectory(rootDir)
	if err != nil {
		t.Fatalf("re-reading the catalog failed: %v", err)
	}
	tbi, err := restarted.GetLatestTimeBucketInfoFromKey(tbk)
	if err != nil {
		t.Fatalf("bucket %s not found after the catalog was re-read: %v", tbk.GetItemKey(), err)
	}
	return tbi.GetElementNames(), tbi.GetElementTypes()
}

// d9Check asserts the property for one schema.
func d9Check(t *testing.T, names []string, types []io.EnumElementType) {
	t.Helper()

	rootDir, tbk, err, panicMsg := d9Create(t, names, types)
	if panicMsg != "" {
		t.Fatalf("AddTimeBucket panicked instead of returning an error: %s", panicMsg)
	}
	if err != nil {
		t.Logf("creation rejected: %v", err)
		// a rejected creation must not leave a partial bucket behind
		if _, statErr := os.Stat(filepath.Join(rootDir, "TEST")); statErr == nil {
			t.Errorf("creation was rejected but %s exists", filepath.Join(rootDir, "TEST"))
		}
		return
	}
	gotNames, gotTypes := d9ReadBack(t, rootDir, tbk)
	if !reflect.DeepEqual(gotNames, names) {
		t.Errorf("column names changed across a restart:\n created: %q\n reported: %q", names, gotNames)
	}
	if !reflect.DeepEqual(gotTypes, types) {
		t.Errorf("column types changed across a restart:\n created: %v\n reported: %v", types, gotTypes)
	}
}

func d9Columns(n int) (names []string, types []io.EnumElementType) {
	for i := 0; i < n; i++ {
		names = append(names, fmt.Sprintf("C%04d", i))
		types = append(types, io.FLOAT32)
	}
	return names, types
}

// (a) a column name longer than the 32-byte header field.
func TestD9LongColumnName(t *testing.T) {
	long := strings.Repeat("A", 32) + "_8bytes_" // 40 bytes
	d9Check(t, []string{"Open", long}, []io.EnumElementType{io.FLOAT32, io.FLOAT32})
}

// (a') two different long names that share their first 32 bytes become the same column.
func TestD9LongColumnNamesCollide(t *testing.T) {
	prefix := strings.Repeat("B", 32)
	d9Check(t, []string{prefix + "_bid", prefix + "_ask"}, []io.EnumElementType{io.FLOAT32, io.FLOAT32})
}

// (b) more columns than the header has element slots.
func TestD9TooManyColumns(t *testing.T) {
	names, types := d9Columns(1025)
	d9Check(t, names, types)
}

// Names that the NUL-trimming header reader cannot give back.
func TestD9EmptyColumnName(t *testing.T) {
	d9Check(t, []string{"Open", ""}, []io.EnumElementType{io.FLOAT32, io.FLOAT32})
}

func TestD9ColumnNameWithNUL(t *testing.T) {
	d9Check(t, []string{"Open", "Close\x00"}, []io.EnumElementType{io.FLOAT32, io.FLOAT32})
}

// The limits themselves are storable and must stay accepted: a 32-byte name and 1024 columns
// (plus the Epoch column, which is not stored in the header).
func TestD9LimitsAreAccepted(t *testing.T) {
	names, types := d9Columns(1023)
	names = append(names, strings.Repeat("Z", 32))
	types = append(types, io.INT64)

	rootDir, tbk, err, panicMsg := d9Create(t,
		append([]string{"Epoch"}, names...), append([]io.EnumElementType{io.INT64}, types...))
	if panicMsg != "" || err != nil {
		t.Fatalf("a schema at the header limits was not accepted: err=%v panic=%s", err, panicMsg)
	}
	gotNames, gotTypes := d9ReadBack(t, rootDir, tbk)
	if !reflect.DeepEqual(gotNames, names) || !reflect.DeepEqual(gotTypes, types) {
		t.Errorf("a schema at the header limits changed across a restart")
	}
}
