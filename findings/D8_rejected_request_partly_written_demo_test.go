package executor_test

// D8 demo (C14): a write request naming two buckets, one of whose column sets does not match its bucket, is rejected
// by WriteCSM with an error — but when the matching bucket happens to be visited first (Go map order), its rows have
// already been queued and are written by the next flush: the rejected request changed a bucket named in it.
// Run: copy into executor/ and  go test -vet=off -count=1 -run TestD8 ./executor/

import (
	"fmt"
	"testing"
	"time"

	"github.com/alpacahq/marketstore/v4/executor"
	"github.com/alpacahq/marketstore/v4/internal/di"
	"github.com/alpacahq/marketstore/v4/planner"
	"github.com/alpacahq/marketstore/v4/utils"
	"github.com/alpacahq/marketstore/v4/utils/io"
)

func TestD8RejectedRequestLeavesRowsQueued(t *testing.T) {
	rootDir := t.TempDir()
	cfg := utils.NewDefaultConfig(rootDir)
	cfg.BackgroundSync = false
	c := di.NewContainer(cfg)
	metadata := executor.NewInstanceSetup(c.GetCatalogDir(), c.GetInitWALFile())
	writer, err := executor.NewWriter(metadata.CatalogDir, metadata.WALFile)
	if err != nil {
		t.Fatal(err)
	}
	ts := time.Date(2020, time.March, 4, 5, 6, 0, 0, time.UTC)
	mk := func(col string, v int64) *io.ColumnSeries {
		cs := io.NewColumnSeries()
		cs.AddColumn("Epoch", []int64{ts.Unix()})
		cs.AddColumn(col, []int64{v})
		return cs
	}
	for attempt := 0; attempt < 40; attempt++ {
		good := io.NewTimeBucketKey(fmt.Sprintf("GOOD%d/1Min/PX", attempt))
		bad := io.NewTimeBucketKey(fmt.Sprintf("BAD%d/1Min/PX", attempt))
		// create both buckets with column "Val"
		for _, k := range []*io.TimeBucketKey{good, bad} {
			csm := io.NewColumnSeriesMap()
			csm.AddColumnSeries(*k, mk("Val", 1))
			if err = writer.WriteCSM(csm, false); err != nil {
				t.Fatal(err)
			}
		}
		if err = metadata.WALFile.FlushToWAL(); err != nil {
			t.Fatal(err)
		}
		// the request: a matching row for `good` (value 2, one minute later) and a row with a renamed column for `bad`
		ts2 := ts.Add(time.Minute)
		g := io.NewColumnSeries()
		g.AddColumn("Epoch", []int64{ts2.Unix()})
		g.AddColumn("Val", []int64{2})
		b := io.NewColumnSeries()
		b.AddColumn("Epoch", []int64{ts2.Unix()})
		b.AddColumn("Renamed", []int64{2})
		req := io.NewColumnSeriesMap()
		req.AddColumnSeries(*good, g)
		req.AddColumnSeries(*bad, b)
		if err = writer.WriteCSM(req, false); err == nil {
			t.Fatal("the request with a renamed column was accepted")
		}
		// the request was rejected: after the next flush neither bucket may have changed
		if err = metadata.WALFile.FlushToWAL(); err != nil {
			t.Fatal(err)
		}
		q := planner.NewQuery(metadata.CatalogDir)
		q.AddTargetKey(good)
		pr, err2 := q.Parse()
		if err2 != nil {
			t.Fatal(err2)
		}
		rd, err2 := executor.NewReader(pr)
		if err2 != nil {
			t.Fatal(err2)
		}
		out, err2 := rd.Read()
		if err2 != nil {
			t.Fatal(err2)
		}
		if n := out[*good].Len(); n != 1 {
			t.Fatalf("attempt %d: the rejected request wrote %d row(s) into bucket %s (epochs %v)", attempt, n-1, good.String(), out[*good].GetEpoch())
		}
	}
}
