package executor

import (
	"testing"
	"time"

	"github.com/alpacahq/marketstore/v4/executor/wal"
	"github.com/alpacahq/marketstore/v4/utils/io"
)

// RequestFlush must not return before the caller's queued commands were flushed. With a WAL writer goroutine
// present and another flush request already queued, it returns at once although nothing was flushed yet.
func TestDemoD16RequestFlushReturnsEarly(t *testing.T) {
	tp := NewTransactionPipe()
	wf := &WALFileType{txnPipe: tp, WALBypass: true}
	old := haveWALWriter
	haveWALWriter = true // a background writer exists (but is busy / has not picked the request up yet)
	defer func() { haveWALWriter = old }()

	tp.flushChannel <- make(chan struct{}) // another writer's flush request is still queued
	wf.QueueWriteCommand(&wal.WriteCommand{RecordType: io.FIXED, WALKeyPath: "X/1Min/OHLCV/2021.bin", Data: []byte{1}})

	done := make(chan struct{})
	go func() { wf.RequestFlush(); close(done) }()
	select {
	case <-done:
		if n := len(tp.writeChannel); n != 0 {
			t.Fatalf("RequestFlush returned while %d command(s) of the caller were still unflushed in the write channel", n)
		}
	case <-time.After(500 * time.Millisecond):
		// blocked waiting for the writer goroutine: that is the correct behaviour (nobody serves the queue in this test)
	}
}
