package catalog_test

import (
	"os"
	"path/filepath"
	"testing"
	"time"

	"github.com/alpacahq/marketstore/v4/catalog"
	"github.com/alpacahq/marketstore/v4/utils"
	"github.com/alpacahq/marketstore/v4/utils/io"
)

// A bucket key whose first item is ".." must not create anything outside the root directory.
func TestDemoD10KeyEscapesRoot(t *testing.T) {
	outer := t.TempDir()
	root := filepath.Join(outer, "root")
	if err := os.Mkdir(root, 0o770); err != nil {
		t.Fatal(err)
	}
	d, err := catalog.NewDirectory(root)
	if err != nil {
		// an empty root returns an ErrCategoryFileNotFound-style error but a usable directory
		t.Logf("NewDirectory: %v", err)
	}
	tbk := io.NewTimeBucketKey("../1Min/OHLCV")
	dsv := io.NewDataShapeVector([]string{"Open"}, []io.EnumElementType{io.FLOAT32})
	tbinfo := io.NewTimeBucketInfo(*mustTF(t, tbk), tbk.GetPathToYearFiles(root), "", 2021, dsv, io.FIXED)
	err = d.AddTimeBucket(tbk, tbinfo)
	t.Logf("AddTimeBucket returned: %v", err)
	if _, statErr := os.Stat(filepath.Join(outer, "1Min")); statErr == nil {
		t.Fatalf("a directory was created outside the root: %s", filepath.Join(outer, "1Min"))
	}
	_ = time.Now
}

func mustTF(t *testing.T, tbk *io.TimeBucketKey) *utils.Timeframe {
	tf, err := tbk.GetTimeFrame()
	if err != nil {
		t.Fatal(err)
	}
	return tf
}
