package executor_test

// D4 demo: a 1D (daily) bar stamped on 1 January gets interval index 0
// (utils/io.TimeToIndex returns YearDay()-1 for the daily timeframe), so the writer
// places it at IndexToOffset(0, recLen) = Headersize - recLen, i.e. INSIDE the file
// header, and the reader treats a stored index of 0 as an empty slot.

import (
	"bytes"
	"encoding/binary"
	"fmt"
	"math"
	"os"
	"testing"
	"time"

	"github.com/stretchr/testify/require"

	"github.com/alpacahq/marketstore/v4/catalog"
	"github.com/alpacahq/marketstore/v4/executor"
	"github.com/alpacahq/marketstore/v4/planner"
	"github.com/alpacahq/marketstore/v4/utils"
	"github.com/alpacahq/marketstore/v4/utils/io"
)

type d4Result struct {
	recLen         int32
	jan1Offset     int64
	epochsAllTime  []int64
	firstColAll    []float64
	epochsRanged   []int64
	rangedErr      error
	headerChanged  bool
	changedFrom    int // first differing header byte (-1 if none)
	changedTo      int // last differing header byte (-1 if none)
	jan1InHeader   bool
	schemaBefore   []io.DataShape
	schemaAfter    []io.DataShape
	schemaAfterErr error
	nElemsAfter    int32
	recLenAfter    int32
}

func d4Value(day, col int) float64 { return float64(day*100000+col) + 0.5 }

func d4Run(t *testing.T, nCols int) d4Result {
	t.Helper()
	rootDir, _, metadata := setup(t)
	var res d4Result

	key := "TEST/1D/OHLCV"
	tbk := io.NewTimeBucketKey(key)
	names := make([]string, nCols)
	types := make([]io.EnumElementType, nCols)
	for i := range names {
		names[i] = fmt.Sprintf("C%03d", i)
		types[i] = io.FLOAT64
	}
	dsv := io.NewDataShapeVector(names, types)
	tbinfo := io.NewTimeBucketInfo(*utils.TimeframeFromString("1D"),
		tbk.GetPathToYearFiles(rootDir), "D4 demo", 2021, dsv, io.FIXED)
	require.Nil(t, metadata.CatalogDir.AddTimeBucket(tbk, tbinfo))

	tbi, err := metadata.CatalogDir.GetLatestTimeBucketInfoFromKey(tbk)
	require.Nil(t, err)
	require.Equal(t, 24*time.Hour, tbi.GetTimeframe())
	require.Equal(t, io.FIXED, tbi.GetRecordType())
	res.recLen = tbi.GetRecordLength()
	res.schemaBefore = tbi.GetDataShapes()
	filePath := tbi.Path

	headerBefore := make([]byte, io.Headersize)
	{
		raw, err2 := os.ReadFile(filePath)
		require.Nil(t, err2)
		copy(headerBefore, raw[:io.Headersize])
	}

	// three daily bars: 1, 2, 3 January 2021 00:00:00 UTC
	var (
		ts      []time.Time
		data    []byte
		jan1Row []byte
	)
	for day := 1; day <= 3; day++ {
		tm := time.Date(2021, time.January, day, 0, 0, 0, 0, time.UTC)
		ts = append(ts, tm)
		row := make([]byte, 8+8*nCols)
		binary.LittleEndian.PutUint64(row[0:], uint64(tm.Unix()))
		for c := 0; c < nCols; c++ {
			binary.LittleEndian.PutUint64(row[8+8*c:], math.Float64bits(d4Value(day, c)))
		}
		if day == 1 {
			jan1Row = row
		}
		data = append(data, row...)
	}
	require.Equal(t, int(res.recLen), len(jan1Row), "record length = epoch/index(8) + payload")
	res.jan1Offset = io.IndexToOffset(io.TimeToIndex(ts[0], tbi.GetTimeframe()), tbi.GetRecordLength())

	w, err := executor.NewWriter(metadata.CatalogDir, metadata.WALFile)
	require.Nil(t, err)
	// the write path accepts the 1 January bar without any error
	require.Nil(t, w.WriteRecords(ts, data, tbi.GetDataShapesWithEpoch(), tbi))
	require.Nil(t, metadata.WALFile.FlushToWAL())
	require.Nil(t, metadata.WALFile.CreateCheckpoint())

	// raw file inspection
	raw, err := os.ReadFile(filePath)
	require.Nil(t, err)
	headerAfter := raw[:io.Headersize]
	res.changedFrom, res.changedTo = -1, -1
	for i := range headerAfter {
		if headerAfter[i] != headerBefore[i] {
			if res.changedFrom < 0 {
				res.changedFrom = i
			}
			res.changedTo = i
		}
	}
	res.headerChanged = res.changedFrom >= 0
	if res.jan1Offset >= 0 && res.jan1Offset+int64(res.recLen) <= int64(len(raw)) {
		// on disk: 8 byte index followed by the payload (row minus epoch)
		res.jan1InHeader = res.jan1Offset < io.Headersize &&
			bytes.Equal(raw[res.jan1Offset+8:res.jan1Offset+int64(res.recLen)], jan1Row[8:])
	}

	// schema as seen by a FRESH catalog load (re-reads the header from disk)
	func() {
		defer func() {
			if r := recover(); r != nil {
				res.schemaAfterErr = fmt.Errorf("panic while re-reading header: %v", r)
			}
		}()
		fresh, err2 := catalog.NewDirectory(rootDir)
		if err2 != nil {
			res.schemaAfterErr = err2
			return
		}
		ftbi, err2 := fresh.GetLatestTimeBucketInfoFromKey(tbk)
		if err2 != nil {
			res.schemaAfterErr = err2
			return
		}
		res.schemaAfter = ftbi.GetDataShapes()
		res.nElemsAfter = ftbi.GetNelements()
		res.recLenAfter = ftbi.GetRecordLength()
	}()

	// query over all time
	query := func(setRange bool) ([]int64, []float64, error) {
		q := planner.NewQuery(metadata.CatalogDir)
		q.AddRestriction("Symbol", "TEST")
		q.AddRestriction("Timeframe", "1D")
		q.AddRestriction("AttributeGroup", "OHLCV")
		if setRange {
			q.SetRange(time.Date(2021, 1, 1, 0, 0, 0, 0, time.UTC), time.Date(2021, 1, 31, 0, 0, 0, 0, time.UTC))
		}
		pr, err2 := q.Parse()
		if err2 != nil {
			return nil, nil, err2
		}
		rd, err2 := executor.NewReader(pr)
		if err2 != nil {
			return nil, nil, err2
		}
		csm, err2 := rd.Read()
		if err2 != nil {
			return nil, nil, err2
		}
		var ep []int64
		var c0 []float64
		for _, cs := range csm {
			ep = append(ep, cs.GetEpoch()...)
			if v, ok := cs.GetColumn("C000").([]float64); ok {
				c0 = append(c0, v...)
			}
		}
		return ep, c0, nil
	}
	res.epochsAllTime, res.firstColAll, err = query(false)
	require.Nil(t, err)
	res.epochsRanged, _, res.rangedErr = query(true)

	fmtEp := func(ep []int64) []string {
		out := make([]string, len(ep))
		for i, e := range ep {
			out[i] = time.Unix(e, 0).UTC().Format("2006-01-02T15:04:05Z")
		}
		return out
	}
	t.Logf("nCols=%d recLen=%d Headersize=%d  offset of 1-Jan record=%d (Headersize-recLen=%d)",
		nCols, res.recLen, io.Headersize, res.jan1Offset, io.Headersize-int64(res.recLen))
	t.Logf("TimeToIndex: 1Jan=%d 2Jan=%d 3Jan=%d", io.TimeToIndex(ts[0], utils.Day),
		io.TimeToIndex(ts[1], utils.Day), io.TimeToIndex(ts[2], utils.Day))
	t.Logf("header bytes changed by the write: %v (first=%d last=%d); 1-Jan payload found inside header area: %v",
		res.headerChanged, res.changedFrom, res.changedTo, res.jan1InHeader)
	t.Logf("all-time query returned %d rows: %v  C000=%v", len(res.epochsAllTime), fmtEp(res.epochsAllTime), res.firstColAll)
	t.Logf("ranged query [2021-01-01,2021-01-31] returned %d rows: %v err=%v",
		len(res.epochsRanged), fmtEp(res.epochsRanged), res.rangedErr)
	return res
}

func d4SchemaDiff(before, after []io.DataShape) []string {
	var out []string
	if len(before) != len(after) {
		out = append(out, fmt.Sprintf("column count %d -> %d", len(before), len(after)))
	}
	for i := 0; i < len(before) && i < len(after); i++ {
		if before[i].Name != after[i].Name || before[i].Type != after[i].Type {
			out = append(out, fmt.Sprintf("col[%d] %s/%v(%d) -> %s/%v(%d)", i,
				before[i].Name, before[i].Type, before[i].Type, after[i].Name, after[i].Type, after[i].Type))
		}
	}
	return out
}

// Narrow bucket (5 float64 columns, recLen=48).
func TestD4DailyJan1(t *testing.T) {
	res := d4Run(t, 5)
	require.Nil(t, res.schemaAfterErr)
	require.Empty(t, d4SchemaDiff(res.schemaBefore, res.schemaAfter), "schema after write")
	want := []int64{
		time.Date(2021, 1, 1, 0, 0, 0, 0, time.UTC).Unix(),
		time.Date(2021, 1, 2, 0, 0, 0, 0, time.UTC).Unix(),
		time.Date(2021, 1, 3, 0, 0, 0, 0, time.UTC).Unix(),
	}
	require.Equal(t, want, res.epochsAllTime, "all three daily bars must be returned by an all-time query")
}

// Wide bucket (400 float64 columns, recLen=3208 > 2920 = size of the reserved tail of the header).
func TestD4Wide400(t *testing.T) {
	res := d4Run(t, 400)
	require.Nil(t, res.schemaAfterErr)
	diff := d4SchemaDiff(res.schemaBefore, res.schemaAfter)
	t.Logf("schema differences after fresh catalog load: %d %v", len(diff), diff)
	require.Empty(t, diff, "schema after write")
	require.Len(t, res.epochsAllTime, 3)
}

// Wider bucket (500 float64 columns, recLen=4008): the 1-Jan record covers the whole
// ElementTypes table of the header.
func TestD4Wide500(t *testing.T) {
	res := d4Run(t, 500)
	require.Nil(t, res.schemaAfterErr)
	diff := d4SchemaDiff(res.schemaBefore, res.schemaAfter)
	n := len(diff)
	if n > 6 {
		diff = append(diff[:6], "...")
	}
	t.Logf("schema differences after fresh catalog load: %d %v", n, diff)
	require.Zero(t, n, "schema after write")
	require.Len(t, res.epochsAllTime, 3)
}
