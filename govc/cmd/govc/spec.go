package main

import (
	"fmt"
	"go/ast"
	"go/token"
	"regexp"
	"sort"
	"strconv"
	"strings"

	"golang.org/x/tools/go/packages"
)

const modulePath = "github.com/alpacahq/marketstore/v4"

// Clause is one requires/ensures/invariant/assert clause.
type Clause struct {
	Label string
	Text  string
	Props []string // property tags overriding the function's
	File  string
	Line  int
}

type LoopSpec struct {
	Leaves     []*Clause // proved at every edge that leaves the loop other than by return/panic (break, or the loop condition failing)
	Steps      []*Clause // stepping stones proved at each back edge (may use prev(x)), then usable by the invariants
	Defines    []*Clause // definitional axioms for ghost functions over the loop's data (conservative extensions; listed)
	Invariants []*Clause
	Decreases  *Clause
}

type FuncSpec struct {
	Name     string // fully qualified, as ssa.Function.String()
	PkgPath  string // package whose spec file declared this
	Props    []string
	Requires []*Clause
	Ensures  []*Clause
	Assumes  []*Clause // assumed at function entry without being required from callers (listed as assumptions)
	Marks    []*Clause // typestate marks: assumed after a call, never checked against the body (they define ghost facts)
	GhostMod []string  // ghost regions modified in addition to the inferred effects
	Exits    []*Clause // assertions at every return point over the function's locals (not visible to callers)
	Loops    map[int]*LoopSpec
	Trusted  string // non-empty: body not checked
	Modifies []string
	HasMod   bool
	Inline   bool
	Pure     bool
	Options  map[string]string
	Lemma    bool
	File     string
	Line     int
	Results  []string // names for results in clauses (optional override)
}

type GhostVar struct {
	Name string
	Type string // "int" | "bool" | "real"
}

type GhostFunc struct {
	Name    string
	Params  []GhostVar
	Result  string
	Body    string // "" → uninterpreted
	Opaque  bool   // body given as a quantified definitional axiom with a trigger instead of a macro
	Rec     bool   // recursive definition (define-fun-rec)
	PkgPath string
}

type Axiom struct {
	Label   string
	Text    string
	PkgPath string
}

type Specs struct {
	Funcs      map[string]*FuncSpec
	GhostVars  map[string]*GhostVar
	GhostFuncs map[string]*GhostFunc
	GhostOrder []string
	Axioms     []*Axiom
	Private     map[string]string           // regions no unknown callee can write (assumed; with reason)
	GlobalFacts []*Axiom                    // facts about immutable package variables, assumed at every function entry
	Aliases    map[string]map[string]string // package path → alias → import path
	EffectFree []*regexp.Regexp // name patterns of functions treated as effect-free with havocked results
	Errors     []string
}

func newSpecs() *Specs {
	return &Specs{Funcs: map[string]*FuncSpec{}, GhostVars: map[string]*GhostVar{}, GhostFuncs: map[string]*GhostFunc{}, Aliases: map[string]map[string]string{}, Private: map[string]string{}}
}

var labelRe = regexp.MustCompile(`^#([A-Za-z0-9_.\-]+)\s*(\[[A-Z0-9, ]+\])?\s*:\s*`)

func parseClause(text, file string, line int, defLabel string) *Clause {
	c := &Clause{File: file, Line: line}
	text = strings.TrimSpace(text)
	if m := labelRe.FindStringSubmatch(text); m != nil {
		c.Label = m[1]
		if m[2] != "" {
			for _, p := range strings.Split(strings.Trim(m[2], "[]"), ",") {
				c.Props = append(c.Props, strings.TrimSpace(p))
			}
		}
		text = text[len(m[0]):]
	} else {
		c.Label = defLabel
	}
	c.Text = text
	return c
}

func qualify(name, pkgPath string) string {
	name = strings.ReplaceAll(name, "@/", modulePath+"/")
	// method forms: (*T).M or (T).M ; function: F or pkg.F
	if strings.HasPrefix(name, "(") {
		end := strings.Index(name, ")")
		recv := name[1:end]
		star := ""
		if strings.HasPrefix(recv, "*") {
			star = "*"
			recv = recv[1:]
		}
		if !strings.Contains(recv, ".") && recv != "error" {
			recv = pkgPath + "." + recv
		}
		return "(" + star + recv + ")" + name[end+1:]
	}
	if !strings.Contains(name, ".") {
		return pkgPath + "." + name
	}
	return name
}

// loadSpecs parses all //@ lines from files of the given packages.
func loadSpecs(pkgs []*packages.Package, fset *token.FileSet) *Specs {
	sp := newSpecs()
	seen := map[string]bool{}
	var visit func(p *packages.Package)
	visit = func(p *packages.Package) {
		if seen[p.PkgPath] {
			return
		}
		seen[p.PkgPath] = true
		if strings.HasPrefix(p.PkgPath, modulePath) {
			for _, f := range p.Syntax {
				fname := fset.Position(f.Pos()).Filename
				if !strings.Contains(fname, "zz_verif_") {
					continue
				}
				sp.parseFile(f, fset, p.PkgPath)
			}
		}
		keys := make([]string, 0, len(p.Imports))
		for k := range p.Imports {
			keys = append(keys, k)
		}
		sort.Strings(keys)
		for _, k := range keys {
			visit(p.Imports[k])
		}
	}
	for _, p := range pkgs {
		visit(p)
	}
	return sp
}

func (sp *Specs) errf(file string, line int, format string, args ...interface{}) {
	sp.Errors = append(sp.Errors, fmt.Sprintf("%s:%d: %s", file, line, fmt.Sprintf(format, args...)))
}

func (sp *Specs) parseFile(f *ast.File, fset *token.FileSet, pkgPath string) {
	type line struct {
		text string
		file string
		line int
	}
	var lines []line
	for _, cg := range f.Comments {
		for _, c := range cg.List {
			if !strings.HasPrefix(c.Text, "//@") {
				continue
			}
			pos := fset.Position(c.Pos())
			t := strings.TrimSpace(c.Text[3:])
			// continuation lines: "//@   ..." beginning with '\'
			if strings.HasPrefix(t, "\\") && len(lines) > 0 {
				lines[len(lines)-1].text += " " + strings.TrimSpace(t[1:])
				continue
			}
			lines = append(lines, line{t, pos.Filename, pos.Line})
		}
	}
	var cur *FuncSpec
	nlabel := map[string]int{}
	autoLabel := func(kind string) string {
		nlabel[kind]++
		return kind + strconv.Itoa(nlabel[kind])
	}
	for _, l := range lines {
		t := l.text
		if i := strings.Index(t, " //"); i >= 0 { // trailing comment
			t = strings.TrimSpace(t[:i])
		}
		word, rest := t, ""
		if i := strings.IndexAny(t, " \t"); i >= 0 {
			word, rest = t[:i], strings.TrimSpace(t[i+1:])
		}
		switch word {
		case "func", "lemma":
			name := qualify(rest, pkgPath)
			cur = &FuncSpec{Name: name, PkgPath: pkgPath, Loops: map[int]*LoopSpec{}, Options: map[string]string{}, File: l.file, Line: l.line, Lemma: word == "lemma"}
			if old, dup := sp.Funcs[name]; dup {
				sp.errf(l.file, l.line, "duplicate contract for %s (first at %s:%d)", name, old.File, old.Line)
			}
			sp.Funcs[name] = cur
			nlabel = map[string]int{}
		case "props":
			if cur == nil {
				sp.errf(l.file, l.line, "props outside func")
				continue
			}
			cur.Props = append(cur.Props, strings.Fields(strings.ReplaceAll(rest, ",", " "))...)
		case "requires":
			if cur == nil {
				sp.errf(l.file, l.line, "requires outside func")
				continue
			}
			cur.Requires = append(cur.Requires, parseClause(rest, l.file, l.line, autoLabel("pre")))
		case "ensures":
			if cur == nil {
				sp.errf(l.file, l.line, "ensures outside func")
				continue
			}
			cur.Ensures = append(cur.Ensures, parseClause(rest, l.file, l.line, autoLabel("post")))
		case "assumepre":
			// assumepre <callee>.<label> "reason": this caller does not establish the callee's precondition; it is
			// assumed here and listed as an assumption instead of being an obligation
			if cur != nil {
				fs := strings.SplitN(rest, " ", 2)
				reason := ""
				if len(fs) == 2 {
					reason = strings.Trim(strings.TrimSpace(fs[1]), "\"")
				}
				cur.Options["assumepre:"+fs[0]] = reason
			}
		case "forget":
			// forget <callee>.<label> ...: postconditions of a callee this caller's argument does not need; they are not
			// assumed at its call sites (dropping a hypothesis is always sound; it keeps non-linear clauses out of queries)
			if cur != nil {
				for _, f := range strings.Fields(rest) {
					cur.Options["forget:"+f] = "1"
				}
			}
		case "assumes":
			if cur == nil {
				sp.errf(l.file, l.line, "assumes outside func")
				continue
			}
			cur.Assumes = append(cur.Assumes, parseClause(rest, l.file, l.line, autoLabel("assume")))
		case "marks":
			if cur == nil {
				sp.errf(l.file, l.line, "marks outside func")
				continue
			}
			cur.Marks = append(cur.Marks, parseClause(rest, l.file, l.line, autoLabel("mark")))
		case "ghostmod":
			if cur != nil {
				cur.GhostMod = append(cur.GhostMod, strings.Fields(strings.ReplaceAll(rest, ",", " "))...)
			}
		case "exit":
			if cur == nil {
				sp.errf(l.file, l.line, "exit outside func")
				continue
			}
			cur.Exits = append(cur.Exits, parseClause(rest, l.file, l.line, autoLabel("exit")))
		case "loop":
			if cur == nil {
				sp.errf(l.file, l.line, "loop outside func")
				continue
			}
			parts := strings.SplitN(rest, " ", 3)
			if len(parts) < 3 {
				sp.errf(l.file, l.line, "bad loop clause")
				continue
			}
			n, err := strconv.Atoi(parts[0])
			if err != nil {
				sp.errf(l.file, l.line, "bad loop ordinal")
				continue
			}
			ls := cur.Loops[n]
			if ls == nil {
				ls = &LoopSpec{}
				cur.Loops[n] = ls
			}
			switch parts[1] {
			case "invariant":
				ls.Invariants = append(ls.Invariants, parseClause(parts[2], l.file, l.line, autoLabel(fmt.Sprintf("loop%d.inv", n))))
			case "step":
				ls.Steps = append(ls.Steps, parseClause(parts[2], l.file, l.line, autoLabel(fmt.Sprintf("loop%d.step", n))))
			case "leave":
				ls.Leaves = append(ls.Leaves, parseClause(parts[2], l.file, l.line, autoLabel(fmt.Sprintf("loop%d.leave", n))))
			case "define":
				ls.Defines = append(ls.Defines, parseClause(parts[2], l.file, l.line, autoLabel(fmt.Sprintf("loop%d.def", n))))
			case "decreases":
				ls.Decreases = parseClause(parts[2], l.file, l.line, fmt.Sprintf("loop%d.decreases", n))
			default:
				sp.errf(l.file, l.line, "bad loop clause kind %q", parts[1])
			}
		case "trusted":
			if cur == nil {
				sp.errf(l.file, l.line, "trusted outside func")
				continue
			}
			cur.Trusted = strings.Trim(rest, "\"")
			if cur.Trusted == "" {
				cur.Trusted = "unspecified"
			}
		case "modifies":
			if cur == nil {
				sp.errf(l.file, l.line, "modifies outside func")
				continue
			}
			cur.HasMod = true
			cur.Modifies = append(cur.Modifies, strings.Fields(strings.ReplaceAll(rest, ",", " "))...)
		case "inline":
			if cur != nil {
				cur.Inline = true
			}
		case "pure":
			if cur != nil {
				cur.Pure = true
				cur.HasMod = true
			}
		case "reveal":
			if cur != nil {
				for _, n := range strings.Fields(strings.ReplaceAll(rest, ",", " ")) {
					cur.Options["reveal:"+n] = "true"
				}
			}
		case "results":
			if cur != nil {
				cur.Results = strings.Fields(strings.ReplaceAll(rest, ",", " "))
			}
		case "option":
			if cur != nil {
				kv := strings.SplitN(rest, " ", 2)
				v := "true"
				if len(kv) == 2 {
					v = strings.TrimSpace(kv[1])
				}
				cur.Options[kv[0]] = v
			}
		case "ghost":
			cur = nil
			sp.parseGhost(rest, l.file, l.line, pkgPath)
		case "axiom":
			cur = nil
			c := parseClause(rest, l.file, l.line, fmt.Sprintf("axiom%d", len(sp.Axioms)))
			sp.Axioms = append(sp.Axioms, &Axiom{Label: c.Label, Text: c.Text, PkgPath: pkgPath})
		case "import":
			cur = nil
			fs := strings.Fields(rest)
			if len(fs) != 2 {
				sp.errf(l.file, l.line, "import <alias> <path>")
				continue
			}
			if sp.Aliases[pkgPath] == nil {
				sp.Aliases[pkgPath] = map[string]string{}
			}
			sp.Aliases[pkgPath][fs[0]] = strings.ReplaceAll(fs[1], "@/", modulePath+"/")
		case "private":
			cur = nil
			fs := strings.SplitN(rest, " ", 2)
			reason := ""
			if len(fs) == 2 {
				reason = strings.Trim(strings.TrimSpace(fs[1]), "\"")
			}
			sp.Private[fs[0]] = reason
		case "globalfact":
			cur = nil
			c := parseClause(rest, l.file, l.line, fmt.Sprintf("globalfact%d", len(sp.GlobalFacts)))
			sp.GlobalFacts = append(sp.GlobalFacts, &Axiom{Label: c.Label, Text: c.Text, PkgPath: pkgPath})
		case "effectfree":
			cur = nil
			for _, pat := range strings.Fields(rest) {
				pat = strings.ReplaceAll(pat, "@/", modulePath+"/")
				re, err := regexp.Compile("^" + pat + "$")
				if err != nil {
					sp.errf(l.file, l.line, "bad effectfree pattern: %v", err)
					continue
				}
				sp.EffectFree = append(sp.EffectFree, re)
			}
		case "":
		default:
			sp.errf(l.file, l.line, "unknown directive %q", word)
		}
	}
}

var ghostFuncRe = regexp.MustCompile(`^(?:opaque\s+|rec\s+)?func\s+([A-Za-z_][A-Za-z0-9_]*)\s*\(([^)]*)\)\s*([a-z]+)\s*(=\s*(.*))?$`)
var ghostVarRe = regexp.MustCompile(`^var\s+([A-Za-z_][A-Za-z0-9_]*)\s+([a-z]+)$`)

func (sp *Specs) parseGhost(rest, file string, line int, pkgPath string) {
	if m := ghostVarRe.FindStringSubmatch(rest); m != nil {
		sp.GhostVars[m[1]] = &GhostVar{Name: m[1], Type: m[2]}
		return
	}
	if m := ghostFuncRe.FindStringSubmatch(rest); m != nil {
		gf := &GhostFunc{Name: m[1], Result: m[3], Body: strings.TrimSpace(m[5]), PkgPath: pkgPath, Opaque: strings.HasPrefix(rest, "opaque"), Rec: strings.HasPrefix(rest, "rec")}
		if strings.TrimSpace(m[2]) != "" {
			for _, p := range strings.Split(m[2], ",") {
				fs := strings.Fields(p)
				if len(fs) != 2 {
					sp.errf(file, line, "bad ghost func param %q", p)
					return
				}
				gf.Params = append(gf.Params, GhostVar{Name: fs[0], Type: fs[1]})
			}
		}
		if _, dup := sp.GhostFuncs[gf.Name]; dup {
			sp.errf(file, line, "duplicate ghost func %s", gf.Name)
		}
		sp.GhostFuncs[gf.Name] = gf
		sp.GhostOrder = append(sp.GhostOrder, gf.Name)
		return
	}
	sp.errf(file, line, "bad ghost declaration %q", rest)
}

func ghostSort(t string) string {
	switch t {
	case "int":
		return "Int"
	case "bool":
		return "Bool"
	case "real":
		return "Real"
	case "str":
		return "Str"
	case "slice":
		return "Slice"
	case "time":
		return "Time"
	case "iface":
		return "Iface"
	case "bytes": // a byte memory snapshot
		return "(Array Int Int)"
	case "reals": // a float memory snapshot
		return "(Array Int Real)"
	case "intset":
		return "(Array Int Bool)"
	case "intmap":
		return "(Array Int Int)"
	}
	return "Int"
}
