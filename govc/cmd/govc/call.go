package main

import (
	"fmt"
	"go/token"
	"go/types"
	"strings"

	"golang.org/x/tools/go/ssa"
)

type floatOp struct {
	op    string
	exact string
	res   string
}

func (fr *frame) setResults(v ssa.Value, sig *types.Signature, rs []string) {
	if v == nil {
		return
	}
	switch sig.Results().Len() {
	case 0:
		fr.vals[v] = "0"
	case 1:
		fr.vals[v] = rs[0]
	default:
		fr.tuples(v, rs)
	}
}

func (fr *frame) freshResults(name string, sig *types.Signature, st *state) []string {
	var rs []string
	for k := 0; k < sig.Results().Len(); k++ {
		t := sig.Results().At(k).Type()
		r := fr.e.fresh(fmt.Sprintf("%sres.%s.%d", fr.prefix, name, k), fr.e.st.sortOf(t))
		fr.wellFormed(t, r, st)
		rs = append(rs, r)
	}
	return rs
}

// escapingLocals returns loc: regions whose address is passed in args.
func (fr *frame) escapingLocals(args []ssa.Value) map[string]bool {
	esc := map[string]bool{}
	for r := range fr.escaped {
		esc[r] = true
	}
	for _, a := range args {
		if p, ok := fr.ptrs[a]; ok && strings.HasPrefix(p.region, "loc:") {
			esc[p.region] = true
		}
	}
	return esc
}

func (fr *frame) call(v ssa.Value, c *ssa.CallCommon, bc string, st *state, pos token.Pos) {
	e := fr.e
	sig := c.Signature()
	if c.IsInvoke() {
		name := invokeName(c)
		if sp, ok := e.p.specs.Funcs[name]; ok {
			args := []string{fr.val(c.Value)}
			for _, a := range c.Args {
				args = append(args, fr.val(a))
			}
			fr.contractCall(v, sp, nil, sig, name, args, c.Args, bc, st, pos, true)
			return
		}
		eff := e.p.callEffects(c, map[*ssa.Function]bool{})
		e.noteHavoc(name, eff)
		fr.havocKeepingLocalMaps(st, eff, fr.escapingLocals(c.Args), nil)
		fr.setResults(v, sig, fr.freshResults(c.Method.Name(), sig, st))
		return
	}
	switch f := c.Value.(type) {
	case *ssa.Builtin:
		fr.builtin(v, f, c, bc, st, pos)
		return
	case *ssa.Function:
		name := f.String()
		switch f.Name() {
		case "verifAssert":
			o := fr.oblige("assert", fr.assertLabel(pos), bc, fr.val(c.Args[0]), pos, nil)
			o.Src = fr.srcText(pos)
			e.assume(implies(bc, fr.val(c.Args[0])))
			return
		case "verifAssume":
			e.assumes++
			e.assume(implies(bc, fr.val(c.Args[0])))
			return
		}
		var args []string
		for _, a := range c.Args {
			args = append(args, fr.val(a))
		}
		if sp, ok := e.p.specs.Funcs[name]; ok {
			if sp.Inline && f.Blocks != nil && fr.depth < 4 {
				fr.inlineCall(v, f, sp, args, c.Args, bc, st, pos)
				return
			}
			fr.contractCall(v, sp, f, sig, name, args, c.Args, bc, st, pos, false)
			return
		}
		eff := e.p.effects(f, map[*ssa.Function]bool{})
		e.noteHavoc(name, eff)
		fr.havocKeepingLocalMaps(st, eff, fr.escapingLocals(c.Args), nil)
		if !e.p.isEffectFree(name) {
			fr.havocInteriorTargets(st, c.Args)
		}
		fr.setResults(v, sig, fr.freshResults(f.Name(), sig, st))
		return
	case *ssa.MakeClosure:
		eff := e.p.effects(f.Fn.(*ssa.Function), map[*ssa.Function]bool{})
		fr.havocKeepingLocalMaps(st, eff, fr.escapingLocals(c.Args), nil)
		fr.setResults(v, sig, fr.freshResults("closure", sig, st))
		return
	}
	// dynamic call through a function value
	if fa, ok := c.Value.(*ssa.UnOp); ok {
		if fld, ok := fa.X.(*ssa.FieldAddr); ok {
			stT := fld.X.Type().Underlying().(*types.Pointer).Elem()
			name := "(" + types.TypeString(stT, nil) + ")." + stT.Underlying().(*types.Struct).Field(fld.Field).Name()
			if sp, ok := e.p.specs.Funcs[name]; ok {
				var args []string
				for _, a := range c.Args {
					args = append(args, fr.val(a))
				}
				fr.contractCall(v, sp, nil, sig, name, args, c.Args, bc, st, pos, false)
				return
			}
		}
	}
	e.noteHavoc("dynamic call "+c.Value.Name(), &effSet{all: true})
	fr.havocKeepingLocalMaps(st, &effSet{all: true, regs: map[string]bool{}}, fr.escapingLocals(c.Args), nil)
	fr.setResults(v, sig, fr.freshResults("dyn", sig, st))
}

func (e *Enc) noteHavoc(name string, eff *effSet) {
	if eff.all || len(eff.regs) > 0 {
		e.usedHavoc[shortFunc(name)] = true
	} else {
		e.usedEffFree[shortFunc(name)] = true
	}
}

func (fr *frame) assertLabel(pos token.Pos) string {
	p := fr.e.pos(pos)
	src := readFileCached(p.Filename)
	if src != nil {
		// label: text of the assert line, trimmed
		lines := strings.Split(string(src), "\n")
		if p.Line-1 < len(lines) {
			l := strings.TrimSpace(lines[p.Line-1])
			if i := strings.Index(l, "// #"); i >= 0 {
				return strings.TrimSpace(l[i+4:])
			}
			l = strings.TrimPrefix(l, "verifAssert(")
			l = strings.TrimSuffix(l, ")")
			if len(l) > 50 {
				l = l[:50]
			}
			return strings.Join(strings.Fields(l), "")
		}
	}
	return "a"
}

// contractCall: check requires, havoc modifies, assume ensures.
func (fr *frame) contractCall(v ssa.Value, sp *FuncSpec, f *ssa.Function, sig *types.Signature, name string, args []string, argVals []ssa.Value, bc string, st *state, pos token.Pos, invoke bool) {
	e := fr.e
	if sp.Trusted != "" {
		e.usedTrusted[shortFunc(name)] = sp.Trusted
	}
	allArgVals := argVals
	if invoke {
		allArgVals = append([]ssa.Value{nil}, argVals...)
	}
	env := fr.calleeEnv(sp, f, sig, args, st, invoke, allArgVals)
	for _, c := range sp.Requires {
		t, err := env.boolExpr(c.Text)
		if err != nil {
			e.errf("%s:%d: %v", c.File, c.Line, err)
			continue
		}
		if e.rootSpec != nil {
			if reason, ok := e.rootSpec.Options["assumepre:"+shortName(name)+"."+c.Label]; ok {
				e.assumes++
				e.assumedPre[shortName(name)+"."+c.Label] = reason
				e.assume(implies(bc, t))
				continue
			}
		}
		o := fr.oblige("call-pre", shortName(name)+"."+c.Label+":"+fr.srcText(pos), bc, t, pos, nil)
		o.Src = c.Text
		e.assume(implies(bc, t))
	}
	pre := st.clone()
	var eff *effSet
	if f != nil {
		eff = e.p.effects(f, map[*ssa.Function]bool{})
	} else {
		eff = &effSet{regs: map[string]bool{}}
		if sp.HasMod {
			for _, m := range sp.Modifies {
				if m == "all" {
					eff.all = true
				} else if m != "none" {
					eff.regs[m] = true
				}
			}
		} else {
			eff.all = true
		}
	}
	for r := range eff.regs {
		if strings.HasPrefix(r, "ghost:") {
			e.ghostRegion(strings.TrimPrefix(r, "ghost:"))
		}
	}
	esc := fr.escapingLocals(argVals)
	if sp.Pure {
		esc = map[string]bool{}
	}
	fr.havocKeepingLocalMaps(st, eff, esc, nil)
	if !sp.Pure {
		fr.havocInteriorTargets(st, argVals)
	}
	rs := fr.freshResults(shortName(name), sig, st)
	env2 := fr.calleeEnv(sp, f, sig, args, st, invoke, allArgVals)
	env2.pre = pre
	res := sig.Results()
	for k := 0; k < res.Len(); k++ {
		b := binding{term: rs[k], typ: res.At(k).Type()}
		env2.vars[fmt.Sprintf("result%d", k)] = b
		if res.Len() == 1 {
			env2.vars["result"] = b
		}
		if n := res.At(k).Name(); n != "" && n != "_" {
			env2.vars[n] = b
		}
		if k < len(sp.Results) {
			env2.vars[sp.Results[k]] = b
		}
	}
	for _, c := range append(append([]*Clause{}, sp.Ensures...), sp.Marks...) {
		if e.rootSpec != nil && e.rootSpec.Options["forget:"+shortName(name)+"."+c.Label] != "" {
			continue
		}
		t, err := env2.boolExpr(c.Text)
		if err != nil {
			e.errf("%s:%d: %v", c.File, c.Line, err)
			continue
		}
		e.assume(implies(bc, t))
	}
	if len(sp.Marks) > 0 {
		e.usedMarks[shortFunc(name)] = len(sp.Marks)
	}
	if name == "math.Floor" || name == "math.Round" || name == "math.Ceil" || name == "math.Trunc" {
		for _, r := range rs {
			e.intValued[r] = true
			k := e.fresh("ishadow", "Int")
			e.assume(implies(bc, eq(r, app("to_real", k))))
			e.shadow[r] = [2]string{k, bc}
		}
	}
	fr.setResults(v, sig, rs)
}

func shortName(name string) string {
	if i := strings.LastIndex(name, "/"); i >= 0 {
		name = name[i+1:]
	}
	return strings.NewReplacer("(", "", ")", "", "*", "").Replace(name)
}

// calleeEnv binds the callee's parameter names to argument terms.
func (fr *frame) calleeEnv(sp *FuncSpec, f *ssa.Function, sig *types.Signature, args []string, st *state, invoke bool, argVals []ssa.Value) *specEnv {
	env := fr.baseEnv(st)
	env.pkgPath = sp.PkgPath
	ptrOf := func(i int) *ptrInfo {
		if i < len(argVals) {
			if p, ok := fr.ptrs[argVals[i]]; ok && (len(p.path) > 0 || !strings.HasPrefix(p.region, "mem:")) {
				return p
			}
		}
		return nil
	}
	k := 0
	if sig.Recv() != nil {
		n := sig.Recv().Name()
		if n == "" || n == "_" {
			n = "recv"
		}
		if k < len(args) {
			env.vars[n] = binding{term: args[k], typ: sig.Recv().Type()}
			env.vars["recv"] = binding{term: args[k], typ: sig.Recv().Type()}
		}
		k++
	} else if invoke {
		k = 0
	}
	if f != nil {
		// use SSA parameter names (includes receiver)
		k = 0
		for i, p := range f.Params {
			if i < len(args) {
				env.vars[p.Name()] = binding{term: args[i], typ: p.Type(), ptr: ptrOf(i)}
				if i == 0 && sig.Recv() != nil {
					env.vars["recv"] = binding{term: args[i], typ: p.Type(), ptr: ptrOf(i)}
				}
			}
		}
		return env
	}
	ps := sig.Params()
	for i := 0; i < ps.Len(); i++ {
		n := ps.At(i).Name()
		if n == "" || n == "_" {
			n = fmt.Sprintf("arg%d", i)
		}
		if k < len(args) {
			env.vars[n] = binding{term: args[k], typ: ps.At(i).Type()}
			env.vars[fmt.Sprintf("arg%d", i)] = binding{term: args[k], typ: ps.At(i).Type()}
		}
		k++
	}
	return env
}

func (fr *frame) inlineCall(v ssa.Value, f *ssa.Function, sp *FuncSpec, args []string, argVals []ssa.Value, bc string, st *state, pos token.Pos) {
	e := fr.e
	e.usedInline[shortFunc(f.String())] = true
	e.ninline++
	sub := e.newFrame(f, nil, fr.depth+1)
	sub.prefix = fmt.Sprintf("%si%d.", fr.prefix, e.ninline)
	sub.baseAllowed = e.curAllowed
	// pass pointer infos of args for pointer params
	for i, a := range argVals {
		if p, ok := fr.ptrs[a]; ok && i < len(f.Params) {
			sub.ptrs[f.Params[i]] = p
		}
	}
	sub.run(bc, st, args)
	// merge returns
	if len(sub.rets) == 0 {
		e.assume(not(bc)) // callee never returns
		fr.setResults(v, f.Signature, fr.freshResults(f.Name(), f.Signature, st))
		return
	}
	var ins []*edge
	for _, r := range sub.rets {
		ins = append(ins, &edge{cond: r.bc, st: r.st})
	}
	merged := fr.mergeStates(ins)
	st.regs, st.epoch, st.stale = merged.regs, merged.epoch, merged.stale
	n := f.Signature.Results().Len()
	rs := make([]string, n)
	for k := 0; k < n; k++ {
		t := sub.rets[len(sub.rets)-1].results[k]
		for j := len(sub.rets) - 2; j >= 0; j-- {
			t = ite(sub.rets[j].bc, sub.rets[j].results[k], t)
		}
		rs[k] = e.define(fmt.Sprintf("%sret%d", sub.prefix, k), e.st.sortOf(f.Signature.Results().At(k).Type()), t)
	}
	// paths on which the callee does not return (panics) are excluded after their obligations were emitted
	var rc []string
	for _, r := range sub.rets {
		rc = append(rc, r.bc)
	}
	e.assume(implies(bc, or(rc...)))
	fr.setResults(v, f.Signature, rs)
}

func (fr *frame) builtin(v ssa.Value, f *ssa.Builtin, c *ssa.CallCommon, bc string, st *state, pos token.Pos) {
	e := fr.e
	switch f.Name() {
	case "len":
		x := fr.val(c.Args[0])
		switch t := c.Args[0].Type().Underlying().(type) {
		case *types.Slice:
			fr.setVal(v, app("s.len", x))
		case *types.Basic:
			fr.setVal(v, app("gstr.len", x))
		case *types.Map:
			_, _, ln := e.mapRegions(t)
			fr.setVal(v, ite(eq(x, "0"), "0", app("select", e.get(st, ln), x)))
			e.assume(app("<=", "0", fr.vals[v]))
		case *types.Array:
			fr.setVal(v, intLit64(t.Len()))
		case *types.Pointer:
			fr.setVal(v, intLit64(t.Elem().Underlying().(*types.Array).Len()))
		case *types.Chan:
			fr.havocVal(v, st)
			e.assume(app("<=", "0", fr.vals[v]))
		default:
			e.errf("%s: len of %s", fr.fn.Name(), t)
		}
	case "cap":
		x := fr.val(c.Args[0])
		switch t := c.Args[0].Type().Underlying().(type) {
		case *types.Slice:
			fr.setVal(v, app("s.cap", x))
		case *types.Array:
			fr.setVal(v, intLit64(t.Len()))
		default:
			fr.havocVal(v, st)
			e.assume(app("<=", "0", fr.vals[v]))
		}
	case "append":
		fr.appendBuiltin(v, c, bc, st)
	case "copy":
		dst, src := fr.val(c.Args[0]), fr.val(c.Args[1])
		sl := c.Args[0].Type().Underlying().(*types.Slice)
		r := e.memRegion(sl.Elem())
		var n, srcAt string
		if isString(c.Args[1].Type()) {
			n = e.define("copyn", "Int", app("imin", app("s.len", dst), app("gstr.len", src)))
			srcAt = fmt.Sprintf("(gstr.at %s (- zi (s.base %s)))", src, dst)
		} else {
			n = e.define("copyn", "Int", app("imin", app("s.len", dst), app("s.len", src)))
			srcAt = fmt.Sprintf("(select %s (+ (s.base %s) (- zi (s.base %s))))", e.get(st, r), src, dst)
		}
		old := e.get(st, r)
		nw := e.fresh("C."+r, e.regionSort[r])
		e.assume(fmt.Sprintf("(forall ((zi Int)) (! (= (select %s zi) (ite (and (<= (s.base %s) zi) (< zi (+ (s.base %s) %s))) %s (select %s zi))) :pattern ((select %s zi))))", nw, dst, dst, n, srcAt, old, nw))
		st.regs[r] = nw
		if v != nil {
			fr.vals[v] = n
		}
	case "delete":
		mt := c.Args[0].Type().Underlying().(*types.Map)
		dom, _, ln := e.mapRegions(mt)
		m, k := fr.val(c.Args[0]), fr.val(c.Args[1])
		d := app("select", e.get(st, dom), m)
		e.set(st, ln, app("store", e.get(st, ln), m, app("-", app("select", e.get(st, ln), m), ite(app("select", d, k), "1", "0"))))
		e.set(st, dom, app("store", e.get(st, dom), m, app("store", d, k, "false")))
	case "print", "println":
	case "min", "max":
		op := "imin"
		if f.Name() == "max" {
			op = "imax"
		}
		t := fr.val(c.Args[0])
		for _, a := range c.Args[1:] {
			t = app(op, t, fr.val(a))
		}
		fr.setVal(v, t)
	case "ssa:wrapnilchk":
		fr.vals[v] = fr.val(c.Args[0])
		if p, ok := fr.ptrs[c.Args[0]]; ok {
			fr.ptrs[v] = p
		}
	case "close":
		if !fr.abstractOK("channel") {
			e.errf("%s: close(chan) outside subset", fr.fn.Name())
		}
	default:
		e.errf("%s: unsupported builtin %s", fr.fn.Name(), f.Name())
		if v != nil {
			fr.havocVal(v, st)
		}
	}
}

func (fr *frame) appendBuiltin(v ssa.Value, c *ssa.CallCommon, bc string, st *state) {
	e := fr.e
	s := fr.val(c.Args[0])
	sl := c.Args[0].Type().Underlying().(*types.Slice)
	r := e.memRegion(sl.Elem())
	var n, srcAt string // srcAt: element k (term with free var zk → index into appended data)
	isStr := isString(c.Args[1].Type())
	x := fr.val(c.Args[1])
	if isStr {
		n = app("gstr.len", x)
	} else {
		n = app("s.len", x)
	}
	nn := e.define("appn", "Int", n)
	oldLen := app("s.len", s)
	newLen := e.define("applen", "Int", app("+", oldLen, nn))
	inPlace := e.define("inplace", "Bool", app("<=", newLen, app("s.cap", s)))
	// destination base: in place → s.base, else fresh block
	top := e.get(st, "heapTop")
	newCap := e.fresh("appcap", "Int")
	e.assume(app(">=", newCap, newLen))
	base := e.define("appbase", "Int", ite(inPlace, app("s.base", s), top))
	st.regs["heapTop"] = e.define("heapTop", "Int", ite(inPlace, top, app("+", top, newCap, "1")))
	old := e.get(st, r)
	if isStr {
		srcAt = fmt.Sprintf("(gstr.at %s (- zi (+ %s %s)))", x, base, oldLen)
	} else {
		srcAt = fmt.Sprintf("(select %s (+ (s.base %s) (- zi (+ %s %s))))", old, x, base, oldLen)
	}
	nw := e.fresh("P."+r, e.regionSort[r])
	// cells [base, base+oldLen): old contents of s (moved if reallocated); [base+oldLen, base+newLen): appended
	e.assume(fmt.Sprintf("(forall ((zi Int)) (! (= (select %s zi) (ite (and (<= (+ %s %s) zi) (< zi (+ %s %s))) %s (ite (and (not %s) (<= %s zi) (< zi (+ %s %s))) (select %s (+ (s.base %s) (- zi %s))) (select %s zi)))) :pattern ((select %s zi))))",
		nw, base, oldLen, base, newLen, srcAt, inPlace, base, base, oldLen, old, s, base, old, nw))
	// the same facts again, triggered from the old memory and as ground terms (E-matching is one-directional)
	e.assume(fmt.Sprintf("(forall ((zj Int)) (! (=> (and (<= (s.base %s) zj) (< zj (+ (s.base %s) %s))) (= (select %s (+ %s (- zj (s.base %s)))) (select %s zj))) :pattern ((select %s zj))))", s, s, oldLen, nw, base, s, old, old))
	if !isStr {
		e.assume(implies(app(">=", nn, "1"), eq(app("select", nw, app("+", base, oldLen)), app("select", old, app("s.base", x)))))
	}
	// ground instances for the first 16 cells of the old contents (cheap; spares the solvers a quantifier chain when
	// a header at the start of a growing buffer is followed through many appends)
	for k := 0; k < 16 && r == "mem:uint8"; k++ {
		ks := fmt.Sprint(k)
		e.assume(implies(app(">", oldLen, ks), eq(app("select", nw, app("ea", base, ks)), app("select", old, app("ea", app("s.base", s), ks)))))
	}
	st.regs[r] = nw
	fr.setVal(v, app("mk-slice", base, newLen, ite(inPlace, app("s.cap", s), newCap)))
}

// invokeName names an interface method call "(pkg/path.Iface).Method" (aliases resolved to the declaring type).
func invokeName(c *ssa.CallCommon) string {
	t := types.Unalias(c.Value.Type())
	if n, ok := t.(*types.Named); ok && n.Obj().Pkg() != nil {
		return "(" + n.Obj().Pkg().Path() + "." + n.Obj().Name() + ")." + c.Method.Name()
	}
	return "(" + types.TypeString(t, func(p *types.Package) string { return p.Path() }) + ")." + c.Method.Name()
}

// localMaps: maps made in this function whose handle never escapes (only looked up, updated, ranged, deleted from,
// measured). No callee can reach them, so their contents survive every call.
func (fr *frame) localMapsOf() map[ssa.Value]*types.Map {
	if fr.localMaps != nil {
		return fr.localMaps
	}
	fr.localMaps = map[ssa.Value]*types.Map{}
	for _, b := range fr.fn.Blocks {
		for _, ins := range b.Instrs {
			mm, ok := ins.(*ssa.MakeMap)
			if !ok || mm.Referrers() == nil {
				continue
			}
			escapes := false
			for _, r := range *mm.Referrers() {
				switch u := r.(type) {
				case *ssa.Lookup, *ssa.Range, *ssa.DebugRef:
				case *ssa.MapUpdate:
					if u.Key == ssa.Value(mm) || u.Value == ssa.Value(mm) {
						escapes = true
					}
				case *ssa.Call:
					if bi, ok := u.Call.Value.(*ssa.Builtin); ok && (bi.Name() == "len" || bi.Name() == "delete") {
						continue
					}
					escapes = true
				default:
					escapes = true
				}
			}
			if !escapes {
				fr.localMaps[mm] = mm.Type().Underlying().(*types.Map)
			}
		}
	}
	return fr.localMaps
}

// havocKeepingLocalMaps havocs the callee's effects but re-asserts the contents of non-escaping local maps
// (except those in `written`, which the havocked code itself updates).
func (fr *frame) havocKeepingLocalMaps(st *state, eff *effSet, esc map[string]bool, written map[ssa.Value]bool) {
	e := fr.e
	type snap struct{ h, dom, val, ln, domR, valR, lnR string }
	var snaps []snap
	for mv, mt := range fr.localMapsOf() {
		h, ok := fr.vals[mv]
		if !ok || written[mv] {
			continue
		}
		domR, valR, lnR := e.mapRegions(mt)
		if !eff.all && !eff.regs[domR] && !eff.regs[valR] && !eff.regs[lnR] {
			continue
		}
		snaps = append(snaps, snap{h, app("select", e.get(st, domR), h), app("select", e.get(st, valR), h), app("select", e.get(st, lnR), h), domR, valR, lnR})
	}
	e.havocEffects(st, eff, esc)
	for _, s := range snaps {
		e.assume(eq(app("select", e.get(st, s.domR), s.h), s.dom))
		e.assume(eq(app("select", e.get(st, s.valR), s.h), s.val))
		e.assume(eq(app("select", e.get(st, s.lnR), s.h), s.ln))
	}
}

// havocInteriorTargets: a pointer into the middle of a struct/array value (or to a local) that is passed to a
// callee may be written through by it; typed regions cannot express that aliasing, so the target is havocked.
func (fr *frame) havocInteriorTargets(st *state, argVals []ssa.Value) {
	e := fr.e
	for _, a := range argVals {
		if a == nil {
			continue
		}
		p, ok := fr.ptrs[a]
		if !ok || p.flat || (len(p.path) == 0 && strings.HasPrefix(p.region, "mem:")) {
			continue
		}
		if strings.HasPrefix(p.region, "loc:") && len(p.path) == 0 {
			continue // whole local: handled through escapingLocals
		}
		pt, ok := a.Type().Underlying().(*types.Pointer)
		if !ok {
			continue
		}
		fv := e.fresh("H.interior", e.st.sortOf(pt.Elem()))
		e.assume(e.st.rangeAssume(pt.Elem(), fv, 0))
		e.store(st, p, fv)
	}
}
