package main

import (
	"fmt"
	"strconv"
	"go/ast"
	"go/token"
	"go/types"
	"sort"
	"strings"

	"golang.org/x/tools/go/ssa"
)

type binding struct {
	term string
	typ  types.Type // nil: mathematical int / bool / real decided by kind
	kind string     // "", "int", "bool", "real" for ghost-typed
	ptr  *ptrInfo
}

type edge struct {
	cond string
	st   *state
}

type retPoint struct {
	bc      string
	results []string
	st      *state
}

type frame struct {
	e       *Enc
	fn      *ssa.Function
	spec    *FuncSpec
	vals    map[ssa.Value]string
	ptrs    map[ssa.Value]*ptrInfo
	bc      map[*ssa.BasicBlock]string
	edges   map[*ssa.BasicBlock][]*edge // outgoing edges, indexed like Succs
	loops   map[*ssa.BasicBlock]*loopInfo
	rets    []retPoint
	depth   int
	entry   *state
	params  map[string]binding
	defers  []*ssa.Defer
	prefix  string
	isRoot  bool
	dbgVals map[string][]ssa.Value // ident name → values (from DebugRef)
	escaped map[string]bool        // loc: regions whose address escaped
	localMaps   map[ssa.Value]*types.Map
	exitSkipped map[string]string
	exitDone    map[string]bool
	anc     map[*ssa.BasicBlock]map[int]bool
	baseAllowed map[int]bool
}

func (e *Enc) newFrame(fn *ssa.Function, spec *FuncSpec, depth int) *frame {
	fr := &frame{e: e, fn: fn, spec: spec, vals: map[ssa.Value]string{}, ptrs: map[ssa.Value]*ptrInfo{}, bc: map[*ssa.BasicBlock]string{},
		edges: map[*ssa.BasicBlock][]*edge{}, depth: depth, params: map[string]binding{}, dbgVals: map[string][]ssa.Value{}, escaped: map[string]bool{}, exitSkipped: map[string]string{}, exitDone: map[string]bool{}}
	for _, b := range fn.Blocks {
		for _, ins := range b.Instrs {
			if d, ok := ins.(*ssa.DebugRef); ok && !d.IsAddr {
				if id, ok := d.Expr.(*ast.Ident); ok {
					dup := false
					for _, v := range fr.dbgVals[id.Name] {
						if v == d.X {
							dup = true
						}
					}
					if !dup {
						fr.dbgVals[id.Name] = append(fr.dbgVals[id.Name], d.X)
					}
				}
			}
		}
	}
	return fr
}

func (e *Enc) pos(p token.Pos) token.Position {
	return e.p.fset.Position(p)
}

// srcText returns the source text of the smallest expression enclosing pos (best effort).
func (fr *frame) srcText(pos token.Pos) string {
	if !pos.IsValid() || fr.fn.Syntax() == nil {
		return ""
	}
	var best ast.Node
	ast.Inspect(fr.fn.Syntax(), func(n ast.Node) bool {
		if n == nil {
			return false
		}
		if n.Pos() <= pos && pos < n.End() {
			switch n.(type) {
			case *ast.IndexExpr, *ast.SliceExpr, *ast.CallExpr, *ast.BinaryExpr, *ast.TypeAssertExpr, *ast.StarExpr, *ast.SelectorExpr:
				best = n
			}
			return true
		}
		return false
	})
	if best == nil {
		return ""
	}
	p1, p2 := fr.e.p.fset.Position(best.Pos()), fr.e.p.fset.Position(best.End())
	src := readFileCached(p1.Filename)
	if src == nil || p2.Offset > len(src) {
		return ""
	}
	t := string(src[p1.Offset:p2.Offset])
	t = strings.Join(strings.Fields(t), " ")
	if len(t) > 60 {
		t = t[:60]
	}
	return t
}

// splitAnd splits a top-level (and a b c) term into its conjuncts.
func splitAnd(t string) []string {
	if strings.HasPrefix(t, "(=> ") {
		// (=> A (and b c)) splits into (=> A b), (=> A c)
		args := sexpArgs(t[4 : len(t)-1])
		if len(args) == 2 {
			parts := splitAnd(args[1])
			if len(parts) > 1 {
				var out []string
				for _, p := range parts {
					out = append(out, "(=> "+args[0]+" "+p+")")
				}
				return out
			}
		}
		return []string{t}
	}
	if !strings.HasPrefix(t, "(and ") {
		return []string{t}
	}
	body := t[5 : len(t)-1]
	var parts []string
	depth, start := 0, 0
	for i := 0; i < len(body); i++ {
		switch body[i] {
		case '(':
			depth++
		case ')':
			depth--
		case ' ':
			if depth == 0 {
				if i > start {
					parts = append(parts, body[start:i])
				}
				start = i + 1
			}
		}
	}
	if start < len(body) {
		parts = append(parts, body[start:])
	}
	var out []string
	for _, p := range parts {
		out = append(out, splitAnd(p)...)
	}
	return out
}

// sexpArgs splits the body of an s-expression application into its top-level arguments.
func sexpArgs(body string) []string {
	var parts []string
	depth, start := 0, 0
	for i := 0; i < len(body); i++ {
		switch body[i] {
		case '(':
			depth++
		case ')':
			depth--
		case ' ':
			if depth == 0 {
				if i > start {
					parts = append(parts, body[start:i])
				}
				start = i + 1
			}
		}
	}
	if start < len(body) {
		parts = append(parts, body[start:])
	}
	return parts
}

// oblige records an obligation at the current point; a conjunction is split into one obligation per conjunct.
func (fr *frame) oblige(kind, label string, guard, goal string, pos token.Pos, props []string) *Obligation {
	if kind != "cover" {
		if parts := splitAnd(goal); len(parts) > 1 {
			var first *Obligation
			for k, p := range parts {
				o := fr.oblige1(kind, fmt.Sprintf("%s.%d", label, k+1), guard, p, pos, props)
				if first == nil {
					first = o
				} else {
					first.siblings = append(first.siblings, o)
					o.parent = first
				}
			}
			return first
		}
	}
	return fr.oblige1(kind, label, guard, goal, pos, props)
}

func (fr *frame) oblige1(kind, label string, guard, goal string, pos token.Pos, props []string) *Obligation {
	e := fr.e
	if e.rootSpec != nil && e.rootSpec.Options["noimplicit"] != "" {
		switch kind {
		case "bounds", "divzero", "makeslice", "nilmap", "typeassert", "overflow", "panic", "floatconv", "nil":
			// this function is under contract for its explicit clauses only; listed in evidence. A failed run-time check
			// panics, so execution continues past it only if it held: that much is assumed (not for the arithmetic
			// obligations, which do not stop execution).
			e.skippedImplicit++
			if kind != "overflow" && kind != "floatconv" {
				e.assume(implies(guard, goal))
			}
			return &Obligation{Name: "skipped", Kind: kind, enc: e}
		}
	}
	base := fmt.Sprintf("%s/%s#%s", shortFunc(e.root.String()), kind, label)
	if fr.prefix != "" {
		base = fmt.Sprintf("%s/%s#%s@%s", shortFunc(e.root.String()), kind, label, fr.prefix)
	}
	base += e.instance
	e.oblNames[base]++
	name := base
	if n := e.oblNames[base]; n > 1 {
		name = fmt.Sprintf("%s~%d", base, n)
	}
	if props == nil && e.rootSpec != nil {
		props = e.rootSpec.Props
	}
	o := &Obligation{Name: name, Kind: kind, Func: e.root.String(), Props: props, nOut: len(e.out), Guard: guard, Goal: goal, Pos: e.pos(pos), Params: e.rootParams, enc: e, allowed: e.curAllowed}
	e.obls = append(e.obls, o)
	return o
}

func shortFunc(s string) string {
	return strings.ReplaceAll(s, modulePath+"/", "")
}

// ---------------------------------------------------------------------------

func (fr *frame) val(v ssa.Value) string {
	if t, ok := fr.vals[v]; ok {
		return t
	}
	e := fr.e
	switch c := v.(type) {
	case *ssa.Const:
		return e.constTerm(c)
	case *ssa.Global:
		// address of a global as a value: not representable as Int; use ptr()
		return "0"
	case *ssa.Function:
		return intLit64(int64(e.st.typeID(types.NewPointer(c.Signature)) + 1000))
	case *ssa.Builtin:
		return "0"
	}
	e.errf("%s: value %s (%T) used before definition", fr.fn.Name(), v.Name(), v)
	t := e.fresh("undef", e.st.sortOf(v.Type()))
	fr.vals[v] = t
	return t
}

func (fr *frame) ptr(v ssa.Value) *ptrInfo {
	if p, ok := fr.ptrs[v]; ok {
		return p
	}
	e := fr.e
	if g, ok := v.(*ssa.Global); ok {
		elem := g.Type().(*types.Pointer).Elem()
		p := &ptrInfo{region: e.globalRegion(g), cell: elem}
		fr.ptrs[v] = p
		return p
	}
	pt, ok := v.Type().Underlying().(*types.Pointer)
	if !ok {
		e.errf("%s: ptr() of non-pointer %s", fr.fn.Name(), v.Name())
		return &ptrInfo{region: e.memRegion(types.Typ[types.Int]), addr: "0", cell: types.Typ[types.Int]}
	}
	elem := pt.Elem()
	if arr, ok := elem.Underlying().(*types.Array); ok {
		return &ptrInfo{region: e.memRegion(arr.Elem()), addr: fr.val(v), cell: arr.Elem(), arrLen: arr.Len(), flat: true}
	}
	return &ptrInfo{region: e.memRegion(elem), addr: fr.val(v), cell: elem}
}

func (e *Enc) constTerm(c *ssa.Const) string {
	t := c.Type()
	if c.Value == nil {
		return e.st.zero(t)
	}
	switch u := t.Underlying().(type) {
	case *types.Basic:
		info := u.Info()
		switch {
		case info&types.IsBoolean != 0:
			if constBool(c) {
				return "true"
			}
			return "false"
		case info&types.IsInteger != 0:
			bi, _ := constBigInt(c.Value)
			return intLit(bi)
		case info&types.IsFloat != 0:
			r := constBigRat(c.Value)
			return ratLit(r)
		case info&types.IsString != 0:
			return e.strLit(constString(c.Value))
		}
	}
	return e.st.zero(t)
}

func (e *Enc) strLit(s string) string {
	if s == "" {
		return "gstr.empty"
	}
	if n, ok := e.strLits[s]; ok {
		return n
	}
	n := fmt.Sprintf("strlit%d", len(e.strLits))
	e.strLits[s] = n
	e.strDecls = append(e.strDecls, fmt.Sprintf("(declare-const %s Str)", n), fmt.Sprintf("(assert (= (gstr.len %s) %d))", n, len(s)))
	if len(s) <= 48 {
		for i := 0; i < len(s); i++ {
			e.strDecls = append(e.strDecls, fmt.Sprintf("(assert (= (gstr.at %s %d) %d))", n, i, s[i]))
		}
	}
	return n
}

// wellFormed assumes typing facts for a value that came from outside (parameter, load, call result).
func (fr *frame) wellFormed(t types.Type, x string, s *state) {
	e := fr.e
	e.assume(e.st.rangeAssume(t, x, 0))
	if isTime(t) {
		return
	}
	switch u := t.Underlying().(type) {
	case *types.Slice:
		top := e.get(s, "heapTop")
		e.assume(app("<", app("+", app("s.base", x), app("s.cap", x)), top))
	case *types.Pointer, *types.Map:
		top := e.get(s, "heapTop")
		e.assume(app("<", x, top))
		if pt, ok := u.(*types.Pointer); ok {
			// the object a pointer parameter/result points to holds values of its field types
			if _, isStruct := pt.Elem().Underlying().(*types.Struct); isStruct && !isTime(pt.Elem()) {
				obj := app("select", e.get(s, e.memRegion(pt.Elem())), x)
				if ra := e.st.rangeAssume(pt.Elem(), obj, 0); ra != "" {
					e.assume(implies(not(eq(x, "0")), ra))
				}
				// ... and the pointers, maps and slices stored in it refer to memory that is already allocated
				si := e.st.structOf(pt.Elem())
				su := pt.Elem().Underlying().(*types.Struct)
				for i := 0; i < su.NumFields(); i++ {
					ft := app(si.fields[i], obj)
					switch su.Field(i).Type().Underlying().(type) {
					case *types.Slice:
						e.assume(implies(not(eq(x, "0")), app("<", app("+", app("s.base", ft), app("s.cap", ft)), top)))
					case *types.Pointer, *types.Map:
						e.assume(implies(not(eq(x, "0")), app("<", ft, top)))
					}
				}
			}
		}
	case *types.Struct:
		si := e.st.structOf(t)
		for i := 0; i < u.NumFields(); i++ {
			switch u.Field(i).Type().Underlying().(type) {
			case *types.Slice, *types.Pointer, *types.Map:
				fr.wellFormed(u.Field(i).Type(), app(si.fields[i], x), s)
			}
		}
	}
}

// ---------------------------------------------------------------------------
// Running a function body

func (fr *frame) run(entryBC string, entry *state, args []string) {
	e := fr.e
	fn := fr.fn
	loops, err := findLoops(fn)
	if err != nil {
		e.errf("%s: %v", fn.Name(), err)
		return
	}
	fr.loops = loops
	// map loop ordinals to specs
	nAst := countLoops(fn)
	if nAst >= 0 && nAst != len(loops) {
		// loops with constant-false conditions etc. may vanish; we only warn when specs exist
		if fr.spec != nil && len(fr.spec.Loops) > 0 {
			e.errf("%s: %d loops in source but %d in SSA; loop ordinals ambiguous", fn.Name(), nAst, len(loops))
		}
	}
	for _, li := range loops {
		if fr.spec != nil {
			li.spec = fr.spec.Loops[li.ordinal]
		}
	}
	if fr.spec != nil {
		for n := range fr.spec.Loops {
			if n >= len(loops) {
				e.errf("%s: contract names loop %d but the function has %d loops", fn.Name(), n, len(loops))
			}
		}
	}
	fr.entry = entry
	for i, p := range fn.Params {
		fr.vals[p] = args[i]
		fr.params[p.Name()] = binding{term: args[i], typ: p.Type()}
	}
	for i, fv := range fn.FreeVars {
		_ = i
		t := e.fresh("fv."+fv.Name(), e.st.sortOf(fv.Type()))
		fr.vals[fv] = t
	}
	order := rpo(fn)
	states := map[*ssa.BasicBlock]*state{}
	fr.anc = map[*ssa.BasicBlock]map[int]bool{}
	savedTag, savedAllowed := e.curTag, e.curAllowed
	defer func() {
		// everything the callee emitted happens before the caller's continuation
		if savedAllowed != nil {
			for _, a := range fr.anc {
				for t := range a {
					savedAllowed[t] = true
				}
			}
		}
		e.curTag, e.curAllowed = savedTag, savedAllowed
	}()
	for _, b := range order {
		// control-flow cone: lines emitted for blocks that cannot reach b are left out of b's queries
		e.ntag++
		allowed := map[int]bool{e.ntag: true}
		for t := range fr.baseAllowed {
			allowed[t] = true
		}
		for _, p := range b.Preds {
			if b.Dominates(p) {
				continue
			}
			for t := range fr.anc[p] {
				allowed[t] = true
			}
		}
		fr.anc[b] = allowed
		e.curTag, e.curAllowed = e.ntag, allowed
		var bc string
		var st *state
		if b == fn.Blocks[0] {
			bc, st = entryBC, entry.clone()
		} else {
			bc, st = fr.enterBlock(b)
			if bc == "" {
				continue
			}
		}
		bcName := e.define(fmt.Sprintf("bc.%s%d", fr.prefix, b.Index), "Bool", bc)
		fr.bc[b] = bcName
		states[b] = st
		fr.runBlock(b, bcName, st)
	}
}

func countLoops(fn *ssa.Function) int {
	syn := fn.Syntax()
	if syn == nil {
		return -1
	}
	n := 0
	var body ast.Node
	switch s := syn.(type) {
	case *ast.FuncDecl:
		body = s.Body
	case *ast.FuncLit:
		body = s.Body
	}
	if body == nil {
		return -1
	}
	ast.Inspect(body, func(x ast.Node) bool {
		switch x.(type) {
		case *ast.FuncLit:
			return false
		case *ast.ForStmt, *ast.RangeStmt:
			n++
		}
		return true
	})
	return n
}

// incoming returns, for block b, the list of (pred, edge) in Preds order.
func (fr *frame) incoming(b *ssa.BasicBlock) []*edge {
	used := map[*ssa.BasicBlock]int{}
	var res []*edge
	for _, p := range b.Preds {
		var found *edge
		k := 0
		for j, s := range p.Succs {
			if s == b {
				if k == used[p] {
					if es := fr.edges[p]; es != nil && j < len(es) {
						found = es[j]
					}
					break
				}
				k++
			}
		}
		used[p]++
		res = append(res, found)
	}
	return res
}

func (fr *frame) mergeStates(ins []*edge) *state {
	e := fr.e
	var live []*edge
	for _, in := range ins {
		if in != nil {
			live = append(live, in)
		}
	}
	if len(live) == 1 {
		return live[0].st.clone()
	}
	st := &state{regs: map[string]string{}, stale: map[string]int{}, epoch: live[0].st.epoch}
	same := true
	for _, in := range live[1:] {
		if in.st.epoch != st.epoch {
			same = false
		}
	}
	if !same {
		e.nepoch++
		st.epoch = e.nepoch
	}
	keys := map[string]bool{}
	for _, in := range live {
		for k := range in.st.regs {
			keys[k] = true
		}
		for k := range in.st.stale {
			keys[k] = true
		}
	}
	for _, k := range sortedKeys(keys) {
		if _, ok := e.regionSort[k]; !ok {
			e.nepoch++
			st.stale[k] = e.nepoch
			continue
		}
		first := e.get(live[0].st, k)
		all := true
		for _, in := range live[1:] {
			if e.get(in.st, k) != first {
				all = false
			}
		}
		if all {
			st.regs[k] = first
			continue
		}
		t := e.get(live[len(live)-1].st, k)
		for i := len(live) - 2; i >= 0; i-- {
			t = ite(live[i].cond, e.get(live[i].st, k), t)
		}
		st.regs[k] = e.define("M."+k, e.regionSort[k], t)
	}
	return st
}

// enterBlock computes the block condition and state of a non-entry block. Returns "" if unreachable.
func (fr *frame) enterBlock(b *ssa.BasicBlock) (string, *state) {
	e := fr.e
	ins := fr.incoming(b)
	li := fr.loops[b]
	if li == nil {
		var conds []string
		any := false
		for _, in := range ins {
			if in != nil {
				conds = append(conds, in.cond)
				any = true
			}
		}
		if !any {
			return "", nil
		}
		st := fr.mergeStates(ins)
		// phis
		for _, instr := range b.Instrs {
			phi, ok := instr.(*ssa.Phi)
			if !ok {
				break
			}
			var t string
			first := true
			for i := len(ins) - 1; i >= 0; i-- {
				if ins[i] == nil {
					continue
				}
				v := fr.val(phi.Edges[i])
				if first {
					t, first = v, false
				} else {
					t = ite(ins[i].cond, v, t)
				}
			}
			fr.vals[phi] = e.define(fr.prefix+phi.Name(), e.st.sortOf(phi.Type()), t)
			if isFloat(phi.Type()) {
				// integer shadow of a merge of integer-valued floats
				var sh, cs []string
				all := true
				for i2 := range ins {
					if ins[i2] == nil {
						continue
					}
					k, c, ok := e.shadowOf(fr.val(phi.Edges[i2]))
					if !ok {
						all = false
						break
					}
					sh = append(sh, k)
					cs = append(cs, implies(ins[i2].cond, c))
					_ = i2
				}
				if all && len(sh) > 0 {
					var st string
					first2 := true
					idx := 0
					for i2 := len(ins) - 1; i2 >= 0; i2-- {
						if ins[i2] == nil {
							continue
						}
						idx++
						k := sh[len(sh)-idx]
						if first2 {
							st, first2 = k, false
						} else {
							st = ite(ins[i2].cond, k, st)
						}
					}
					kk := e.define("ishadow", "Int", st)
					cond := and(cs...)
					e.assume(implies(cond, eq(fr.vals[phi], app("to_real", kk))))
					e.shadow[fr.vals[phi]] = [2]string{kk, cond}
					e.intValued[fr.vals[phi]] = true
				}
			}
			if _, isPtr := phi.Type().Underlying().(*types.Pointer); isPtr {
				for i := range ins {
					if ins[i] != nil {
						if p, ok := fr.ptrs[phi.Edges[i]]; ok && !strings.HasPrefix(p.region, "mem:") {
							e.errf("%s: phi of non-heap pointer %s unsupported", fr.fn.Name(), phi.Name())
						}
					}
				}
			}
		}
		return or(conds...), st
	}
	// ---- loop header: cut
	var entryIns []*edge
	var entryIdx []int
	for i, p := range b.Preds {
		if !b.Dominates(p) && ins[i] != nil {
			entryIns = append(entryIns, ins[i])
			entryIdx = append(entryIdx, i)
		}
	}
	if len(entryIns) == 0 {
		return "", nil
	}
	loopName := fmt.Sprintf("%s loop %d", fr.fn.Name(), li.ordinal)
	if li.spec == nil {
		li.spec = &LoopSpec{}
		if fr.isRoot {
			e.errf("%s: no invariant given (loops need `//@ loop %d invariant ...`)", loopName, li.ordinal)
		}
	}
	// invariant on entry
	for k, in := range entryIns {
		env := fr.loopEnv(li, func(phi *ssa.Phi) string { return fr.val(phi.Edges[entryIdx[k]]) }, in.st)
		for _, c := range li.spec.Defines {
			if t, err := env.boolExpr(c.Text); err == nil {
				e.assume(implies(in.cond, t))
			}
		}
		for _, c := range li.spec.Invariants {
			t, err := env.boolExpr(c.Text)
			if err != nil {
				e.errf("%s:%d: %v", c.File, c.Line, err)
				continue
			}
			o := fr.oblige("inv-entry", c.Label, in.cond, t, b.Instrs[0].Pos(), clauseProps(c, e))
			o.Src = c.Text
			e.assume(implies(in.cond, t)) // cumulative: later clauses may use earlier ones
		}
	}
	var conds []string
	for _, in := range entryIns {
		conds = append(conds, in.cond)
	}
	st := fr.mergeStates(entryIns)
	// havoc what the loop modifies
	eff := fr.loopEffects(li)
	esc := map[string]bool{}
	for r := range st.regs {
		if strings.HasPrefix(r, "loc:") && (eff.regs[r] || (eff.all && fr.escaped[r])) {
			esc[r] = true
		}
	}
	fr.havocKeepingLocalMaps(st, eff, esc, fr.mapsWrittenIn(li))
	// fresh phis
	for _, instr := range b.Instrs {
		phi, ok := instr.(*ssa.Phi)
		if !ok {
			break
		}
		t := e.fresh(fr.prefix+phi.Name()+"."+phi.Comment, e.st.sortOf(phi.Type()))
		fr.vals[phi] = t
		fr.wellFormed(phi.Type(), t, st)
	}
	bc := or(conds...)
	env := fr.loopEnv(li, func(phi *ssa.Phi) string { return fr.vals[phi] }, st)
	for _, c := range li.spec.Defines {
		t, err := env.boolExpr(c.Text)
		if err != nil {
			e.errf("%s:%d: %v", c.File, c.Line, err)
			continue
		}
		e.assume(implies(bc, t))
		e.assumedPre["ghost definition #"+c.Label] = c.Text
	}
	for _, c := range li.spec.Invariants {
		t, err := env.boolExpr(c.Text)
		if err != nil {
			continue
		}
		e.assume(implies(bc, t))
	}
	li.hdrState = st
	if li.spec.Decreases != nil {
		t, _, err := env.expr(li.spec.Decreases.Text)
		if err != nil {
			e.errf("%s:%d: %v", li.spec.Decreases.File, li.spec.Decreases.Line, err)
		} else {
			li.measure = e.define("measure", "Int", t)
		}
		e.loopsDecr = append(e.loopsDecr, loopName)
	} else if fr.isRoot {
		e.loopsNoDecr = append(e.loopsNoDecr, loopName)
	}
	return bc, st
}

func clauseProps(c *Clause, e *Enc) []string {
	if len(c.Props) > 0 {
		return c.Props
	}
	return nil
}

// loopEffects: regions written in the loop body.
func (fr *frame) loopEffects(li *loopInfo) *effSet {
	es := &effSet{regs: map[string]bool{}}
	for b := range li.body {
		for _, ins := range b.Instrs {
			switch i := ins.(type) {
			case *ssa.Store:
				if p, ok := fr.ptrs[i.Addr]; ok {
					es.regs[p.region] = true
					continue
				}
				if a, ok := i.Addr.(*ssa.Alloc); ok && !a.Heap {
					es.regs[fr.locRegion(a)] = true
					continue
				}
				r := fr.storeRegionLocal(i.Addr)
				if r == "?" {
					es.all = true
				} else if r != "" {
					es.regs[r] = true
				}
			case *ssa.Alloc:
				if !i.Heap {
					if _, isArr := i.Type().Underlying().(*types.Pointer).Elem().Underlying().(*types.Array); !isArr {
						es.regs[fr.locRegion(i)] = true
					} else {
						es.regs["mem:"+typeKey(i.Type().Underlying().(*types.Pointer).Elem().Underlying().(*types.Array).Elem())] = true
					}
				} else {
					es.regs["mem:"+typeKey(i.Type().Underlying().(*types.Pointer).Elem())] = true
				}
			case *ssa.MakeSlice:
				es.regs["mem:"+typeKey(i.Type().Underlying().(*types.Slice).Elem())] = true
			case *ssa.Next:
				es.regs[fr.iterRegion(i.Iter)] = true
			case *ssa.Range:
				es.regs[fr.iterRegion(i)] = true
			default:
				fr.e.p.instrEffects(ins, es, map[*ssa.Function]bool{})
				if c, ok := ins.(*ssa.Call); ok {
					// contract-declared ghost effects are in callEffects already; locals whose address is passed
					for _, a := range c.Call.Args {
						if al, ok := a.(*ssa.Alloc); ok && !al.Heap {
							es.regs[fr.locRegion(al)] = true
						}
					}
				}
			}
		}
	}
	return es
}

func (fr *frame) storeRegionLocal(addr ssa.Value) string {
	switch a := addr.(type) {
	case *ssa.FieldAddr:
		return fr.storeRegionLocal(a.X)
	case *ssa.IndexAddr:
		if _, ok := a.X.Type().Underlying().(*types.Slice); !ok {
			switch a.X.(type) {
			case *ssa.FieldAddr, *ssa.IndexAddr:
				return fr.storeRegionLocal(a.X)
			}
		}
	case *ssa.Alloc:
		if !a.Heap {
			if _, isArr := a.Type().Underlying().(*types.Pointer).Elem().Underlying().(*types.Array); !isArr {
				return fr.locRegion(a)
			}
		}
	}
	return storeRegion(addr)
}

func (fr *frame) locRegion(a *ssa.Alloc) string {
	r := fmt.Sprintf("loc:%s%s.%s", fr.prefix, a.Name(), a.Comment)
	if _, ok := fr.e.regionSort[r]; !ok {
		fr.e.regionSort[r] = fr.e.st.sortOf(a.Type().Underlying().(*types.Pointer).Elem())
	}
	return r
}

func (fr *frame) iterRegion(v ssa.Value) string {
	r := fmt.Sprintf("loc:%siter.%s", fr.prefix, v.Name())
	if _, ok := fr.e.regionSort[r]; !ok {
		rg := v.(*ssa.Range)
		ks := "Int"
		if mt, ok := rg.X.Type().Underlying().(*types.Map); ok {
			ks = fr.e.st.sortOf(mt.Key())
		}
		fr.e.regionSort[r] = fmt.Sprintf("(Array %s Bool)", ks)
	}
	return r
}

// loopEnv builds the name environment for invariants of loop li.
func (fr *frame) loopEnv(li *loopInfo, phiVal func(*ssa.Phi) string, st *state) *specEnv {
	env := fr.baseEnv(st)
	env.pre = fr.entry
	// a parameter that is reassigned inside the loop is a loop-carried variable: in loop clauses its name means the
	// current value (the header phi), not the value on entry (write old(x) for that)
	for l := li; l != nil; l = l.parent {
		for _, instr := range l.header.Instrs {
			phi, ok := instr.(*ssa.Phi)
			if !ok {
				break
			}
			delete(env.vars, phi.Comment)
		}
	}
	env.lookup = func(name string) (binding, bool) {
		// 1. phis of this header, then enclosing headers
		for l := li; l != nil; l = l.parent {
			for _, instr := range l.header.Instrs {
				phi, ok := instr.(*ssa.Phi)
				if !ok {
					break
				}
				if phi.Comment == name {
					if l == li {
						return binding{term: phiVal(phi), typ: phi.Type()}, true
					}
					return binding{term: fr.vals[phi], typ: phi.Type()}, true
				}
			}
		}
		if name == "iter0" && li.isRangeIx {
			for _, instr := range li.header.Instrs {
				phi, ok := instr.(*ssa.Phi)
				if !ok {
					break
				}
				if phi.Comment == "rangeindex" {
					return binding{term: app("+", phiVal(phi), "1"), typ: phi.Type()}, true
				}
			}
		}
		if name == "rangelen" && li.isRangeIx {
			// the length the range loop compares its index with (evaluated once, before the loop)
			for _, instr := range li.header.Instrs {
				if bo, ok := instr.(*ssa.BinOp); ok && bo.Op == token.LSS {
					if t, ok := fr.vals[bo.Y]; ok {
						return binding{term: t, typ: bo.Y.Type()}, true
					}
					if c, ok := bo.Y.(*ssa.Const); ok {
						return binding{term: fr.e.constTerm(c), typ: c.Type()}, true
					}
				}
			}
		}
		return fr.lookupLocal(name, li.header, st)
	}
	return env
}

// lookupLocal resolves a source-level local variable name at block `at`.
func (fr *frame) lookupLocal(name string, at *ssa.BasicBlock, st *state) (binding, bool) {
	if b, ok := fr.params[name]; ok {
		return b, true
	}
	// ret_<callee>: the result of the (single) call of <callee> in this function, where that call dominates the point
	if strings.HasPrefix(name, "ret_") {
		want := strings.TrimPrefix(name, "ret_")
		idx := -1
		if k := strings.LastIndex(want, "_"); k > 0 {
			if n, err := strconv.Atoi(want[k+1:]); err == nil {
				want, idx = want[:k], n // ret_<callee>_<k>: k-th result of a multi-result call
			}
		}
		var found *ssa.Call
		n := 0
		for _, b := range fr.fn.Blocks {
			for _, ins := range b.Instrs {
				c, ok := ins.(*ssa.Call)
				if !ok {
					continue
				}
				cn := ""
				if f := c.Call.StaticCallee(); f != nil {
					cn = f.Name()
				} else if c.Call.IsInvoke() {
					cn = c.Call.Method.Name()
				}
				if cn == want {
					found = c
					n++
				}
			}
		}
		if n == 1 && (found.Block() == at || found.Block().Dominates(at)) {
			if t, ok := fr.vals[found]; ok && t != "tuple" && idx < 0 {
				return binding{term: t, typ: found.Type()}, true
			}
			if tup, isT := found.Type().(*types.Tuple); isT && idx >= 0 && idx < tup.Len() {
				if t, ok := fr.e.tupleVals[tupleKey{found, fr, idx}]; ok {
					return binding{term: t, typ: tup.At(idx).Type()}, true
				}
			}
		}
		return binding{}, false
	}
	// SSA register name (escape hatch)
	if strings.HasPrefix(name, "t") {
		for v, t := range fr.vals {
			if v.Name() == name {
				if _, isP := v.(*ssa.Parameter); !isP {
					return binding{term: t, typ: v.Type()}, true
				}
			}
		}
	}
	// DebugRef'd values dominating `at`
	var best ssa.Value
	for _, v := range fr.dbgVals[name] {
		var db *ssa.BasicBlock
		switch x := v.(type) {
		case ssa.Instruction:
			db = x.Block()
		case *ssa.Parameter, *ssa.Const:
			db = fr.fn.Blocks[0]
		}
		if db == nil || !(db == at || db.Dominates(at)) {
			continue
		}
		if _, isPhi := v.(*ssa.Phi); isPhi {
			continue
		}
		if _, ok := fr.vals[v]; !ok {
			if _, isC := v.(*ssa.Const); !isC {
				continue
			}
		}
		if best == nil {
			best = v
			continue
		}
		// later definition wins
		bb := fr.fn.Blocks[0]
		if bi, ok := best.(ssa.Instruction); ok {
			bb = bi.Block()
		}
		if bb != db && bb.Dominates(db) {
			best = v
		} else if bb == db {
			if idxOf(v) > idxOf(best) {
				best = v
			}
		}
	}
	// phis named after the variable (any block dominating `at`); later definitions win
	for _, b := range fr.fn.Blocks {
		if !(b == at || b.Dominates(at)) {
			continue
		}
		for _, ins := range b.Instrs {
			phi, ok := ins.(*ssa.Phi)
			if !ok {
				break
			}
			if phi.Comment != name {
				continue
			}
			if _, ok := fr.vals[phi]; !ok {
				continue
			}
			if best == nil {
				best = phi
				continue
			}
			bb := fr.fn.Blocks[0]
			if bi, ok := best.(ssa.Instruction); ok {
				bb = bi.Block()
			}
			if bb != b && bb.Dominates(b) {
				best = phi
			}
		}
	}
	if best != nil {
		return binding{term: fr.val(best), typ: best.Type(), ptr: fr.ptrs[best]}, true
	}
	// a named result that has not been assigned yet holds its zero value
	res := fr.fn.Signature.Results()
	for k := 0; k < res.Len(); k++ {
		if res.At(k).Name() == name {
			hasAlloc := false
			for _, b := range fr.fn.Blocks {
				for _, ins := range b.Instrs {
					if a, ok := ins.(*ssa.Alloc); ok && a.Comment == name {
						hasAlloc = true
					}
				}
			}
			if !hasAlloc {
				return binding{term: fr.e.st.zero(res.At(k).Type()), typ: res.At(k).Type()}, true
			}
		}
	}
	// address-taken locals / named results
	for _, b := range fr.fn.Blocks {
		for _, ins := range b.Instrs {
			if a, ok := ins.(*ssa.Alloc); ok && a.Comment == name {
				if p, ok := fr.ptrs[a]; ok {
					elem := a.Type().Underlying().(*types.Pointer).Elem()
					if p.flat {
						return binding{term: p.addr, typ: a.Type(), ptr: p}, true
					}
					return binding{term: fr.e.load(st, p), typ: elem}, true
				}
			}
		}
	}
	return binding{}, false
}

func idxOf(v ssa.Value) int {
	ins, ok := v.(ssa.Instruction)
	if !ok {
		return -1
	}
	for i, x := range ins.Block().Instrs {
		if x == ins {
			return i
		}
	}
	return -1
}

func sortBlocks(m map[*ssa.BasicBlock]bool) []*ssa.BasicBlock {
	var bs []*ssa.BasicBlock
	for b := range m {
		bs = append(bs, b)
	}
	sort.Slice(bs, func(i, j int) bool { return bs[i].Index < bs[j].Index })
	return bs
}

var fileCache = map[string][]byte{}

func readFileCached(name string) []byte {
	if b, ok := fileCache[name]; ok {
		return b
	}
	b, err := readFile(name)
	if err != nil {
		b = nil
	}
	fileCache[name] = b
	return b
}

// mapsWrittenIn: local maps updated or deleted from inside the loop body.
func (fr *frame) mapsWrittenIn(li *loopInfo) map[ssa.Value]bool {
	w := map[ssa.Value]bool{}
	for b := range li.body {
		for _, ins := range b.Instrs {
			switch u := ins.(type) {
			case *ssa.MapUpdate:
				w[u.Map] = true
			case *ssa.Call:
				if bi, ok := u.Call.Value.(*ssa.Builtin); ok && bi.Name() == "delete" {
					w[u.Call.Args[0]] = true
				}
			}
		}
	}
	return w
}
