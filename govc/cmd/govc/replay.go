package main

import (
	"bytes"
	"context"
	"encoding/json"
	"fmt"
	"os"
	"os/exec"
	"path/filepath"
	"strings"
	"time"
)

var replayFile = flagString("file", "", "replay file")

func flagString(name, def, usage string) *string {
	return flagCommandLineString(name, def, usage)
}

type replayDoc struct {
	Property     string                 `json:"property"`
	Obligation   string                 `json:"obligation"`
	Function     string                 `json:"function"`
	Clause       string                 `json:"clause"`
	At           string                 `json:"at"`
	SolverResult string                 `json:"solver_result"`
	Backend      string                 `json:"backend"`
	Params       map[string]interface{} `json:"params"`
	SolverOutput string                 `json:"solver_output"`
	Harness      string                 `json:"harness,omitempty"`
	HarnessPkg   string                 `json:"harness_pkg,omitempty"`
	Replayed     bool                   `json:"replayed"`
	FailsOnReal  bool                   `json:"fails_on_real_code"`
	ReplayOutput string                 `json:"replay_output,omitempty"`
	QueryFile    string                 `json:"query_file,omitempty"`
}

// decodeParams turns the solver model into Go-level parameter values.
func decodeParams(o *Obligation) map[string]interface{} {
	ps := map[string]interface{}{}
	if o.Model == nil {
		return ps
	}
	val := func(t string) string {
		v, _ := smtInt(o.Model[t])
		return v
	}
	if o.enc != nil && len(o.enc.ghostModel) > 0 {
		g := map[string]string{}
		for _, gm := range o.enc.ghostModel {
			g[gm[0]] = val(gm[1])
		}
		ps["$ghost"] = g
	}
	for _, p := range o.Params {
		name := p.Name
		switch p.Kind {
		case "int":
			ps[name] = val(p.Term)
		case "bool":
			ps[name] = o.Model[p.Term]
		case "float":
			ps[name] = o.Model[p.Term]
		case "time":
			ps[name] = map[string]string{"abs": val(app("t.abs", p.Term)), "loc": val(app("t.loc", p.Term))}
		case "string":
			n := val(app("gstr.len", p.Term))
			var bs []string
			for k := 0; k < modelElems; k++ {
				bs = append(bs, val(app("gstr.at", p.Term, fmt.Sprint(k))))
			}
			ps[name] = map[string]interface{}{"len": n, "bytes": bs}
		case "ptr":
			if o.enc != nil {
				m := map[string]string{}
				for _, ft := range o.enc.ptrFieldTerms(p) {
					m[strings.TrimPrefix(ft[0], ".")] = val(ft[1])
				}
				ps[name] = m
			}
		case "intslice":
			m := map[string]interface{}{"base": val(app("s.base", p.Term)), "len": val(app("s.len", p.Term)), "cap": val(app("s.cap", p.Term))}
			var es []string
			for _, t := range o.modelTerms {
				if strings.HasPrefix(t, "(select ") && strings.Contains(t, "(s.base "+p.Term+")") {
					es = append(es, val(t))
				}
			}
			m["elems"] = es
			ps[name] = m
		}
	}
	return ps
}

func harnessFor(fn string) (file, pkgDir string) {
	// fn like "executor.trimResultsToRange", "executor/wal.ReadStatus" or "(*executor.WALFileType).readTGData"
	var pkg, name string
	if strings.HasPrefix(fn, "(") {
		end := strings.Index(fn, ")")
		if end < 0 {
			return "", ""
		}
		inner := strings.TrimPrefix(fn[1:end], "*")
		method := strings.TrimPrefix(fn[end+1:], ".")
		k := strings.LastIndex(inner, ".")
		if k < 0 {
			return "", ""
		}
		pkg, name = inner[:k], inner[k+1:]+"."+method
	} else {
		k := strings.LastIndex(fn, ".")
		if k < 0 {
			return "", ""
		}
		pkg, name = fn[:k], fn[k+1:]
	}
	f := filepath.Join(*verifDir, "harness", pkg, sanitize(name)+"_replay_test.go")
	if _, err := os.Stat(f); err == nil {
		return f, pkg
	}
	return "", pkg
}

func writeReplay(dir, prop string, r *funcResult, o *Obligation) replayResult {
	doc := replayDoc{Property: prop, Obligation: o.Name, Function: shortFunc(o.Func), Clause: o.src(),
		At: fmt.Sprintf("%s:%d", o.Pos.Filename, o.Pos.Line), SolverResult: o.Result, Backend: o.Backend, Params: decodeParams(o)}
	out := o.Output
	if len(out) > 6000 {
		out = out[:6000] + "…"
	}
	doc.SolverOutput = out
	path := filepath.Join(dir, sanitizeFile(prop+"_"+o.Name)+".json")
	// keep the query next to the replay file
	if o.QueryFile != "" {
		if b, err := os.ReadFile(o.QueryFile); err == nil {
			qf := strings.TrimSuffix(path, ".json") + ".smt2"
			_ = os.WriteFile(qf, b, 0o644)
			doc.QueryFile = qf
		}
	}
	h, pkg := harnessFor(shortFunc(o.Func))
	doc.HarnessPkg = pkg
	if h != "" && o.Result == "sat" {
		doc.Harness = h
	} else if o.Result == "sat" && pkg != "" {
		// no hand-written harness: generate one if the function's inputs can be rebuilt from the model
		if g := genHarness(o, &doc, dir); g != "" {
			doc.Harness = g
		}
	}
	b, _ := json.MarshalIndent(doc, "", " ")
	_ = os.WriteFile(path, b, 0o644)
	if doc.Harness != "" {
		ok, outp := runHarness(doc.Harness, pkg, path)
		doc.Replayed = true
		doc.FailsOnReal = !ok
		if len(outp) > 4000 {
			outp = outp[len(outp)-4000:]
		}
		doc.ReplayOutput = outp
		b, _ = json.MarshalIndent(doc, "", " ")
		_ = os.WriteFile(path, b, 0o644)
	}
	return replayResult{path: path, failedOnReal: doc.FailsOnReal}
}

// runHarness injects the harness test into the package with -overlay and runs it. Returns ok=true if the
// real code satisfied the clause on the model (i.e. the replay did NOT reproduce a failure).
func runHarness(harness, pkg, replayPath string) (bool, string) {
	tmp, err := os.MkdirTemp("", "govc-replay")
	if err != nil {
		return true, err.Error()
	}
	defer os.RemoveAll(tmp)
	target := filepath.Join(*repoDir, pkg, "zz_verif_replay_test.go")
	ov := map[string]map[string]string{"Replace": {target: harness}}
	ob, _ := json.Marshal(ov)
	ovf := filepath.Join(tmp, "overlay.json")
	_ = os.WriteFile(ovf, ob, 0o644)
	ctx, cancel := context.WithTimeout(context.Background(), 120*time.Second)
	defer cancel()
	cmd := exec.CommandContext(ctx, "go", "test", "-overlay", ovf, "-tags=verif", "-vet=off", "-count=1", "-timeout", "60s", "-run", "^TestVerifReplay$", "./"+pkg)
	cmd.Dir = *repoDir
	cmd.Env = append(os.Environ(), "GOFLAGS=-mod=mod", "GOPROXY=off", "GOSUMDB=off", "GOTOOLCHAIN=local", "VERIF_REPLAY_FILE="+replayPath)
	var out bytes.Buffer
	cmd.Stdout = &out
	cmd.Stderr = &out
	err = cmd.Run()
	s := out.String()
	if strings.Contains(s, "VERIF-REPLAY-FAIL") {
		return false, s
	}
	if err != nil && strings.Contains(s, "panic:") {
		return false, s
	}
	return true, s
}

func cmdReplay() int {
	if *replayFile == "" {
		fmt.Fprintln(os.Stderr, "replay: -file required")
		return 2
	}
	b, err := os.ReadFile(*replayFile)
	if err != nil {
		fmt.Fprintln(os.Stderr, err)
		return 2
	}
	var doc replayDoc
	if err := json.Unmarshal(b, &doc); err != nil {
		fmt.Fprintln(os.Stderr, err)
		return 2
	}
	fmt.Printf("obligation %s (%s)\nclause: %s\nat: %s\n", doc.Obligation, doc.SolverResult, doc.Clause, doc.At)
	if doc.Harness == "" {
		fmt.Println("no replay harness for this function: the file carries the failed obligation and the solver output only")
		fmt.Println(doc.SolverOutput)
		return 1
	}
	ok, out := runHarness(doc.Harness, doc.HarnessPkg, *replayFile)
	fmt.Println(out)
	if !ok {
		fmt.Println("replay reproduces the failure on the real code")
		return 1
	}
	fmt.Println("replay passes on the real code (the model is an artefact of an abstraction, or the code was repaired)")
	return 0
}
