package main

import (
	"flag"
	"fmt"
	"go/types"
	"os"
	"path/filepath"
	"sort"
	"strings"
	"time"

	"golang.org/x/tools/go/packages"
	"golang.org/x/tools/go/ssa"
	"golang.org/x/tools/go/ssa/ssautil"
)

var (
	repoDir  = flag.String("repo", envOr("VERIF_REPO", "/repo"), "repository root")
	verifDir = flag.String("verif", envOr("VERIF_DIR", "/verif"), "verif root")
	tier     = flag.String("tier", envOr("VERIF_TIER", "quick"), "quick|thorough")
	propFlag = flag.String("prop", "", "property id (check)")
	funcFlag = flag.String("func", "", "restrict to functions whose name contains this")
	verbose  = flag.Bool("v", false, "verbose")
	timeoutS = flag.Int("timeout", 0, "per-obligation solver timeout (s)")
	keepSMT  = flag.Bool("keep", false, "keep SMT files")
)

func flagCommandLineString(name, def, usage string) *string { return flag.String(name, def, usage) }

func envOr(k, d string) string {
	if v := os.Getenv(k); v != "" {
		return v
	}
	return d
}

func main() {
	if len(os.Args) < 2 {
		fmt.Fprintln(os.Stderr, "usage: govc <check|all|dump|baseline> [flags]")
		os.Exit(2)
	}
	cmd := os.Args[1]
	flag.CommandLine.Parse(os.Args[2:])
	switch cmd {
	case "check":
		os.Exit(cmdCheck())
	case "all":
		os.Exit(cmdAll())
	case "dump":
		os.Exit(cmdDump())
	case "replay":
		os.Exit(cmdReplay())
	case "baseline":
		os.Exit(cmdBaseline())
	default:
		fmt.Fprintln(os.Stderr, "unknown command", cmd)
		os.Exit(2)
	}
}

// specPackages finds the package directories under repo that have zz_verif_*.go files mentioning prop (or all if prop == "").
func specPackages(prop string) []string {
	var dirs []string
	seen := map[string]bool{}
	filepath.Walk(*repoDir, func(path string, info os.FileInfo, err error) error {
		if err != nil {
			return nil
		}
		if info.IsDir() && (info.Name() == ".git" || info.Name() == "node_modules") {
			return filepath.SkipDir
		}
		if !info.IsDir() && strings.HasPrefix(info.Name(), "zz_verif_") && strings.HasSuffix(info.Name(), ".go") && !strings.HasSuffix(info.Name(), "_test.go") {
			if prop != "" {
				b, _ := os.ReadFile(path)
				if !strings.Contains(string(b), prop) {
					return nil
				}
			}
			d := filepath.Dir(path)
			if !seen[d] {
				seen[d] = true
				rel, _ := filepath.Rel(*repoDir, d)
				dirs = append(dirs, "./"+rel)
			}
		}
		return nil
	})
	sort.Strings(dirs)
	return dirs
}

func loadProg(patterns []string) (*Prog, error) {
	cfg := &packages.Config{Mode: packages.LoadAllSyntax, Dir: *repoDir, BuildFlags: []string{"-tags=verif"},
		Env: append(os.Environ(), "GOFLAGS=-mod=mod", "GOPROXY=off", "GOSUMDB=off", "GOTOOLCHAIN=local")}
	pkgs, err := packages.Load(cfg, patterns...)
	if err != nil {
		return nil, err
	}
	var errs []string
	packages.Visit(pkgs, nil, func(p *packages.Package) {
		if strings.HasPrefix(p.PkgPath, modulePath) {
			for _, e := range p.Errors {
				errs = append(errs, e.Error())
			}
		}
	})
	if len(errs) > 0 {
		return nil, fmt.Errorf("package errors (the tree does not compile with -tags=verif):\n%s", strings.Join(errs, "\n"))
	}
	prog, _ := ssautil.AllPackages(pkgs, ssa.GlobalDebug)
	prog.Build()
	p := &Prog{fset: prog.Fset, ssa: prog, funcs: map[string]*ssa.Function{}, eff: map[*ssa.Function]*effSet{}}
	p.specs = loadSpecs(pkgs, prog.Fset)
	for fn := range ssautil.AllFunctions(prog) {
		p.funcs[fn.String()] = fn
	}
	return p, nil
}

// encodeFunc produces the obligations of one function under contract.
// instantiations parses `option instantiate <param>: v1,v2,...` into one binding per value (nil: none).
func instantiations(spec *FuncSpec) (string, []string) {
	v, ok := spec.Options["instantiate"]
	if !ok {
		return "", nil
	}
	parts := strings.SplitN(v, ":", 2)
	if len(parts) != 2 {
		return "", nil
	}
	var vals []string
	for _, x := range strings.Split(parts[1], ",") {
		if x = strings.TrimSpace(x); x != "" {
			vals = append(vals, x)
		}
	}
	return strings.TrimSpace(parts[0]), vals
}

func (p *Prog) encodeFunc(fn *ssa.Function, spec *FuncSpec) *Enc {
	return p.encodeFuncWith(fn, spec, "", "")
}

// encodeFuncWith encodes fn with parameter `bindName` fixed to the literal `bindVal` (a per-value instance).
func (p *Prog) encodeFuncWith(fn *ssa.Function, spec *FuncSpec, bindName, bindVal string) *Enc {
	e := newEnc(p, fn, spec)
	if bindName != "" {
		e.instance = "@" + bindName + "=" + bindVal
	}
	st := &state{regs: map[string]string{}, stale: map[string]int{}}
	fr := e.newFrame(fn, spec, 0)
	fr.isRoot = true
	var args []string
	for _, prm := range fn.Params {
		t := e.fresh("p."+prm.Name(), e.st.sortOf(prm.Type()))
		if prm.Name() == bindName {
			e.assume(eq(t, bindVal))
			t = bindVal // use the literal itself so that every term mentioning the parameter is constant
		}
		args = append(args, t)
		if fn.Signature.Recv() != nil && len(args) == 1 {
			if _, isPtr := prm.Type().Underlying().(*types.Pointer); isPtr {
				e.assume(not(eq(t, "0"))) // assumption: methods are not called on nil receivers
			}
		}
		fr.wellFormed(prm.Type(), t, st)
		e.rootParams = append(e.rootParams, paramModel{Name: prm.Name(), Type: prm.Type().String(), Term: t, Kind: kindOf(prm.Type())})
		fr.params[prm.Name()] = binding{term: t, typ: prm.Type()}
	}
	env := fr.baseEnv(st)
	var pre []string
	for _, c := range spec.Requires {
		t, err := env.boolExpr(c.Text)
		if err != nil {
			e.errf("%s:%d: %v", c.File, c.Line, err)
			continue
		}
		e.assume(t)
		pre = append(pre, t)
	}
	for _, gfact := range p.specs.GlobalFacts {
		genv := fr.baseEnv(st)
		genv.pkgPath = gfact.PkgPath
		if t, err := genv.boolExpr(gfact.Text); err == nil {
			e.assume(t)
			e.axiomNames = append(e.axiomNames, "globalfact "+gfact.Label)
		}
	}
	for _, c := range spec.Assumes {
		t, err := env.boolExpr(c.Text)
		if err != nil {
			e.errf("%s:%d: %v", c.File, c.Line, err)
			continue
		}
		e.assume(t)
		e.assumes++
		e.assumedPre["entry assumption #"+c.Label] = c.Text
	}
	// vacuity guard: the preconditions are satisfiable
	o := fr.oblige("cover", "requires-satisfiable", "true", "true", fn.Pos(), nil)
	o.Cover = true
	fr.run("true", st, args)
	// cover for reaching each return
	var rcs []string
	for _, r := range fr.rets {
		rcs = append(rcs, r.bc)
	}
	if len(rcs) > 0 {
		o := fr.oblige("cover", "return-reachable", "true", or(rcs...), fn.Pos(), nil)
		o.Cover = true
	}
	for _, c := range spec.Exits {
		if !fr.exitDone[c.Label] {
			e.errf("%s:%d: exit clause #%s applies at no return point: %s", c.File, c.Line, c.Label, fr.exitSkipped[c.Label])
		}
	}
	e.loadAxioms()
	e.finishModelTerms(st)
	return e
}

func kindOf(t types.Type) string {
	if isTime(t) {
		return "time"
	}
	switch u := t.Underlying().(type) {
	case *types.Basic:
		switch {
		case u.Info()&types.IsBoolean != 0:
			return "bool"
		case u.Info()&types.IsInteger != 0:
			return "int"
		case u.Info()&types.IsFloat != 0:
			return "float"
		case u.Info()&types.IsString != 0:
			return "string"
		}
	case *types.Slice:
		if b, ok := u.Elem().Underlying().(*types.Basic); ok && b.Info()&types.IsInteger != 0 {
			return "intslice"
		}
		return "slice"
	case *types.Pointer:
		return "ptr"
	case *types.Struct:
		return "struct"
	}
	return "other"
}

const modelElems = 48

// finishModelTerms computes, for every obligation, the terms whose values are read from a sat model.
func (e *Enc) finishModelTerms(entry *state) {
	var terms []string
	for _, p := range e.rootParams {
		switch p.Kind {
		case "int", "bool", "float":
			terms = append(terms, p.Term)
		case "time":
			terms = append(terms, app("t.abs", p.Term), app("t.loc", p.Term))
		case "string":
			terms = append(terms, app("gstr.len", p.Term))
			for k := 0; k < modelElems; k++ {
				terms = append(terms, app("gstr.at", p.Term, fmt.Sprint(k)))
			}
		case "ptr":
			for _, ft := range e.ptrFieldTerms(p) {
				terms = append(terms, ft[1])
			}
		case "intslice":
			terms = append(terms, app("s.base", p.Term), app("s.len", p.Term), app("s.cap", p.Term))
			// element memory at entry
			for _, prm := range e.root.Params {
				if "p."+prm.Name() == strings.SplitN(p.Term, "!", 2)[0] {
					elem := prm.Type().Underlying().(*types.Slice).Elem()
					key := "mem:" + typeKey(elem) + "@0"
					if c, ok := e.regionConst[key]; ok {
						for k := 0; k < modelElems; k++ {
							terms = append(terms, app("select", c, app("+", app("s.base", p.Term), fmt.Sprint(k))))
						}
					}
				}
			}
		}
	}
	// ghost state at function entry (e.g. the modelled file)
	for _, name := range sortedKeys(e.p.specs.GhostVars) {
		gv := e.p.specs.GhostVars[name]
		c, ok := e.regionConst["ghost:"+name+"@0"]
		if !ok {
			continue
		}
		switch gv.Type {
		case "int", "bool":
			terms = append(terms, c)
			e.ghostModel = append(e.ghostModel, [2]string{name, c})
		case "bytes":
			for k := 0; k < 64; k++ {
				t := app("select", c, fmt.Sprint(k))
				terms = append(terms, t)
				e.ghostModel = append(e.ghostModel, [2]string{fmt.Sprintf("%s[%d]", name, k), t})
			}
			// and relative to the ghost file position, if there is one
			if pc, ok := e.regionConst["ghost:filePos@0"]; ok && name == "fileContent" {
				for k := 0; k < 64; k++ {
					t := app("select", c, app("+", pc, fmt.Sprint(k)))
					terms = append(terms, t)
					e.ghostModel = append(e.ghostModel, [2]string{fmt.Sprintf("%s[pos+%d]", name, k), t})
				}
			}
		}
	}
	for _, o := range e.obls {
		o.modelTerms = terms
	}
}

// loadAxioms adds the axioms relevant to this function: an axiom is included when one of the ghost functions it
// mentions is used by the function's contracts (or by an axiom already included).
func (e *Enc) loadAxioms() {
	fr := &frame{e: e, fn: e.root, params: map[string]binding{}}
	done := map[int]bool{}
	for changed := true; changed; {
		changed = false
		for i, ax := range e.p.specs.Axioms {
			if done[i] {
				continue
			}
			relevant := false
			for name := range e.ghostUsed {
				if mentionsIdent(ax.Text, name) {
					relevant = true
					break
				}
			}
			if !relevant {
				continue
			}
			// an axiom whose trigger names a ghost function that occurs nowhere in the query can never be instantiated:
			// leave it out (it is picked up in a later round if another axiom brings the function in)
			if pat := patternText(ax.Text); pat != "" {
				canFire := true
				for name := range e.p.specs.GhostFuncs {
					if mentionsIdent(pat, name) && !e.ghostUsed[name] {
						canFire = false
						break
					}
				}
				if !canFire {
					continue
				}
			}
			done[i] = true
			changed = true
			env := &specEnv{fr: fr, e: e, vars: map[string]binding{}, cur: &state{regs: map[string]string{}, stale: map[string]int{}}, pkgPath: ax.PkgPath}
			t, err := env.boolExpr(ax.Text)
			if err != nil {
				e.errf("axiom %s: %v", ax.Label, err)
				continue
			}
			e.axiomAsserts = append(e.axiomAsserts, "(assert "+t+") ; axiom "+ax.Label+" ;;bg")
			e.axiomNames = append(e.axiomNames, ax.Label)
		}
	}
}

// patternText returns the argument text of the first pattern(...) of an axiom ("" if it has none).
func patternText(text string) string {
	i := strings.Index(text, "pattern(")
	if i < 0 {
		return ""
	}
	depth := 0
	for j := i + len("pattern"); j < len(text); j++ {
		switch text[j] {
		case '(':
			depth++
		case ')':
			depth--
			if depth == 0 {
				return text[i+len("pattern(") : j]
			}
		}
	}
	return ""
}

func mentionsIdent(text, name string) bool {
	for i := 0; i+len(name) <= len(text); i++ {
		if text[i:i+len(name)] == name {
			before := i == 0 || !isIdentChar(text[i-1])
			after := i+len(name) == len(text) || !isIdentChar(text[i+len(name)])
			if before && after {
				return true
			}
		}
	}
	return false
}

func isIdentChar(c byte) bool {
	return c == '_' || (c >= 'a' && c <= 'z') || (c >= 'A' && c <= 'Z') || (c >= '0' && c <= '9')
}

type funcResult struct {
	spec *FuncSpec
	fn   *ssa.Function
	enc  *Enc
}

func hasProp(props []string, p string) bool {
	for _, x := range props {
		if x == p {
			return true
		}
	}
	return false
}

// runProp encodes and solves everything tagged with prop ("" = everything).
func runProp(p *Prog, prop string, secs int, smtDir string) ([]*funcResult, []string) {
	var results []*funcResult
	var problems []string
	names := sortedKeys(p.specs.Funcs)
	for _, name := range names {
		sp := p.specs.Funcs[name]
		if sp.Trusted != "" {
			continue
		}
		if sp.Inline && len(sp.Requires)+len(sp.Ensures)+len(sp.Exits)+len(sp.Props) == 0 {
			continue // only marked for inlining at its call sites
		}
		if *funcFlag != "" && !strings.Contains(name, *funcFlag) {
			continue
		}
		if prop != "" && !hasProp(sp.Props, prop) {
			tagged := false
			for _, c := range append(append(append([]*Clause{}, sp.Ensures...), sp.Requires...), sp.Exits...) {
				if hasProp(c.Props, prop) {
					tagged = true
				}
			}
			if !tagged {
				continue
			}
		}
		fn := p.funcs[name]
		if fn != nil && fn.Synthetic != "" {
			problems = append(problems, fmt.Sprintf("contract names %s, which is a compiler-generated wrapper (%s); name the declared method instead", name, fn.Synthetic))
			results = append(results, &funcResult{spec: sp})
			continue
		}
		if fn == nil || fn.Blocks == nil {
			problems = append(problems, fmt.Sprintf("contract names %s but no such function body exists (removed or renamed?)", name))
			results = append(results, &funcResult{spec: sp})
			continue
		}
		if pn, vals := instantiations(sp); len(vals) > 0 {
			for _, v := range vals {
				results = append(results, &funcResult{spec: sp, fn: fn, enc: p.encodeFuncWith(fn, sp, pn, v)})
			}
			continue
		}
		e := p.encodeFunc(fn, sp)
		results = append(results, &funcResult{spec: sp, fn: fn, enc: e})
	}
	var jobs []job
	for _, r := range results {
		if r.enc == nil {
			continue
		}
		for _, o := range r.enc.obls {
			if prop != "" && !hasProp(o.Props, prop) {
				continue
			}
			jobs = append(jobs, job{r.enc, o})
		}
	}
	// consistency guard for the trusted axioms: the axiom set in scope of the function that uses most of them, with
	// nothing else asserted, must not be refutable (an inconsistent axiom makes every obligation "provable")
	var axEnc *Enc
	for _, r := range results {
		if r.enc != nil && len(r.enc.axiomAsserts) > 0 && (axEnc == nil || len(r.enc.axiomAsserts) > len(axEnc.axiomAsserts)) {
			if prop == "" || (r.spec != nil && hasProp(r.spec.Props, prop)) {
				axEnc = r.enc
			}
		}
	}
	if axEnc != nil {
		o := &Obligation{Name: shortFunc(axEnc.root.String()) + "/cover#axioms-consistent", Kind: "cover", Cover: true, Goal: "true", Guard: "true",
			Func: axEnc.root.String(), Props: axEnc.rootSpec.Props, nOut: 0, enc: axEnc}
		axEnc.obls = append(axEnc.obls, o)
		jobs = append(jobs, job{axEnc, o})
	}
	solveAll(jobs, smtDir, secs, 5)
	return results, problems
}

func cmdDump() int {
	pats := specPackages("")
	p, err := loadProg(pats)
	if err != nil {
		fmt.Fprintln(os.Stderr, err)
		return 2
	}
	for _, m := range p.specs.Errors {
		fmt.Println("SPEC ERROR:", m)
	}
	for _, name := range sortedKeys(p.funcs) {
		if *funcFlag != "" && strings.Contains(name, *funcFlag) {
			fn := p.funcs[name]
			if !*verbose {
				es := p.effects(fn, map[*ssa.Function]bool{})
				fmt.Printf("EFFECTS %s: all=%v %v\n", name, es.all, keysOf(es.regs))
				for _, b := range fn.Blocks {
					for _, ins := range b.Instrs {
						if c, ok := ins.(ssa.CallInstruction); ok {
							ce := p.callEffects(c.Common(), map[*ssa.Function]bool{})
							fmt.Printf("   call %s: all=%v %v\n", c.Common().String(), ce.all, keysOf(ce.regs))
						}
					}
				}
				continue
			}
			fn.WriteTo(os.Stdout)
			if sp, ok := p.specs.Funcs[name]; ok && sp.Trusted == "" {
				e := p.encodeFunc(fn, sp)
				for _, m := range e.errs {
					fmt.Println("ENC ERROR:", m)
				}
				for _, o := range e.obls {
					fmt.Printf("OBL %s guard=%s\n   goal=%s\n", o.Name, o.Guard, o.Goal)
				}
				if *verbose && len(e.obls) > 0 {
					fmt.Println(e.buildQuery(e.obls[len(e.obls)-1], false))
				}
			}
		}
	}
	return 0
}

func cmdAll() int {
	start := time.Now()
	pats := specPackages("")
	p, err := loadProg(pats)
	if err != nil {
		fmt.Fprintln(os.Stderr, err)
		return 2
	}
	fmt.Printf("loaded in %.1fs\n", time.Since(start).Seconds())
	for _, m := range p.specs.Errors {
		fmt.Println("SPEC ERROR:", m)
	}
	secs := 10
	if *timeoutS > 0 {
		secs = *timeoutS
	}
	dir, _ := os.MkdirTemp("", "govc-smt")
	if !*keepSMT {
		defer os.RemoveAll(dir)
	} else {
		fmt.Println("smt dir:", dir)
	}
	results, problems := runProp(p, *propFlag, secs, dir)
	for _, pr := range problems {
		fmt.Println("PROBLEM:", pr)
	}
	bad := 0
	for _, r := range results {
		if r.enc == nil {
			continue
		}
		for _, m := range r.enc.errs {
			fmt.Println("ENC ERROR:", m)
			bad++
		}
		for _, o := range r.enc.obls {
			if *propFlag != "" && !hasProp(o.Props, *propFlag) {
				continue
			}
			ok := (o.Cover && o.Result != "unsat" && o.Result != "error") || (!o.Cover && o.Result == "unsat")
			mark := "ok  "
			if !ok {
				mark = "FAIL"
				bad++
			}
			if !ok || *verbose {
				fmt.Printf("%s %-8s %-10s %5.2fs %s %v\n", mark, o.Result, o.Backend, o.Secs, o.Name, o.Props)
				if !ok {
					fmt.Printf("      at %s  src: %s\n", o.Pos, o.src())
					if o.Result == "sat" {
						fmt.Printf("      model: %s\n", modelSummary(o))
					} else {
						out := firstLines(o.Output, 4)
						if len(out) > 400 {
							out = out[:400] + "..."
						}
						fmt.Printf("      out: %s\n", out)
					}
				}
			}
		}
	}
	fmt.Printf("done in %.1fs, %d problems\n", time.Since(start).Seconds(), bad+len(problems))
	if bad+len(problems) > 0 {
		return 1
	}
	return 0
}

func modelSummary(o *Obligation) string {
	var parts []string
	for _, t := range o.modelTerms {
		if v, ok := o.Model[t]; ok {
			if strings.HasPrefix(t, "(select") || strings.HasPrefix(t, "(gstr.at") {
				continue
			}
			parts = append(parts, t+"="+v)
		}
	}
	return strings.Join(parts, " ")
}

// cmdBaseline records, for one property, the names of the obligations that discharge on the current tree.
func cmdBaseline() int {
	prop := *propFlag
	pats := specPackages(prop)
	p, err := loadProg(pats)
	if err != nil {
		fmt.Fprintln(os.Stderr, err)
		return 2
	}
	dir, _ := os.MkdirTemp("", "govc-smt")
	defer os.RemoveAll(dir)
	secs := 10
	if *timeoutS > 0 {
		secs = *timeoutS
	}
	results, _ := runProp(p, prop, secs, dir)
	var names []string
	for _, r := range results {
		if r.enc == nil {
			continue
		}
		for _, o := range r.enc.obls {
			if !hasProp(o.Props, prop) || o.Cover {
				continue
			}
			if o.Result == "unsat" && o.Secs < float64(secs)/2 {
				names = append(names, o.Name)
			} else {
				fmt.Printf("not in baseline: %s (%s %.1fs)\n", o.Name, o.Result, o.Secs)
			}
		}
	}
	sort.Strings(names)
	b, _ := jsonMarshalIndent(baselineFile{Property: prop, Obligations: names})
	_ = os.MkdirAll(filepath.Join(*verifDir, "baseline"), 0o755)
	_ = os.WriteFile(filepath.Join(*verifDir, "baseline", prop+".json"), b, 0o644)
	fmt.Printf("%s: %d obligations in baseline\n", prop, len(names))
	return 0
}

// ptrFieldTerms lists (path, term) for the scalar/time fields of the struct a pointer parameter points to (entry state).
func (e *Enc) ptrFieldTerms(p paramModel) [][2]string {
	var out [][2]string
	for _, prm := range e.root.Params {
		if "p."+sanitize(prm.Name()) != strings.SplitN(p.Term, "!", 2)[0] {
			continue
		}
		pt, ok := prm.Type().Underlying().(*types.Pointer)
		if !ok {
			continue
		}
		if _, ok := pt.Elem().Underlying().(*types.Struct); !ok {
			continue
		}
		key := "mem:" + typeKey(pt.Elem()) + "@0"
		c, ok := e.regionConst[key]
		if !ok {
			continue
		}
		var walk func(prefix, term string, t types.Type, depth int)
		walk = func(prefix, term string, t types.Type, depth int) {
			if isTime(t) {
				out = append(out, [2]string{prefix + ".abs", app("t.abs", term)})
				return
			}
			switch u := t.Underlying().(type) {
			case *types.Basic:
				if u.Info()&(types.IsInteger|types.IsBoolean|types.IsFloat) != 0 {
					out = append(out, [2]string{prefix, term})
				}
				if u.Info()&types.IsString != 0 {
					// short strings held in the object (e.g. a suffix or a key item): length and the first bytes
					out = append(out, [2]string{prefix + "#len", app("gstr.len", term)})
					for k := 0; k < 8; k++ {
						out = append(out, [2]string{fmt.Sprintf("%s#%d", prefix, k), app("gstr.at", term, fmt.Sprint(k))})
					}
				}
			case *types.Struct:
				if depth > 2 {
					return
				}
				si := e.st.structOf(t)
				for i := 0; i < u.NumFields(); i++ {
					walk(prefix+"."+u.Field(i).Name(), app(si.fields[i], term), u.Field(i).Type(), depth+1)
				}
			}
		}
		walk("", app("select", c, p.Term), pt.Elem(), 0)
	}
	return out
}
