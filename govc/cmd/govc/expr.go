package main

import (
	"fmt"
	"go/ast"
	"go/constant"
	"go/parser"
	"go/token"
	"go/types"
	"regexp"
	"strconv"
	"strings"
)

// specEnv evaluates contract expressions to SMT terms.
type specEnv struct {
	fr      *frame
	e       *Enc
	vars    map[string]binding
	cur     *state
	pre     *state
	lookup  func(string) (binding, bool)
	phiOf   func(int, string) (binding, bool)
	prevOf  func(string) (binding, bool)
	pkgPath string
}

func (fr *frame) baseEnv(st *state) *specEnv {
	env := &specEnv{fr: fr, e: fr.e, vars: map[string]binding{}, cur: st}
	if fr.fn.Pkg != nil {
		env.pkgPath = fr.fn.Pkg.Pkg.Path()
	}
	if fr.spec != nil {
		env.pkgPath = fr.spec.PkgPath
	}
	for n, b := range fr.params {
		env.vars[n] = b
	}
	return env
}

var (
	tInt  = types.Typ[types.UntypedInt]
	tBool = types.Typ[types.UntypedBool]
	tReal = types.Typ[types.UntypedFloat]
)

// splitImplies splits a clause at top-level "==>" (right associative).
func splitImplies(s string) []string {
	depth := 0
	var parts []string
	last := 0
	for i := 0; i < len(s); i++ {
		switch s[i] {
		case '(', '[', '{':
			depth++
		case ')', ']', '}':
			depth--
		case '"':
			for i++; i < len(s) && s[i] != '"'; i++ {
			}
		case '=':
			if depth == 0 && strings.HasPrefix(s[i:], "==>") {
				parts = append(parts, s[last:i])
				last = i + 3
				i += 2
			}
		}
	}
	parts = append(parts, s[last:])
	return parts
}

func rewriteImplies(s string) string {
	// rewrite nested "a ==> b" inside parentheses/calls by recursive descent on balanced groups
	var b strings.Builder
	i := 0
	for i < len(s) {
		c := s[i]
		if c == '(' || c == '[' {
			closeCh := byte(')')
			if c == '[' {
				closeCh = ']'
			}
			depth := 1
			j := i + 1
			for j < len(s) && depth > 0 {
				if s[j] == c {
					depth++
				} else if s[j] == closeCh {
					depth--
				} else if s[j] == '"' {
					for j++; j < len(s) && s[j] != '"'; j++ {
					}
				}
				j++
			}
			inner := s[i+1 : j-1]
			b.WriteByte(c)
			if c == '(' {
				// split call args at top-level commas
				args := splitTop(inner, ',')
				for k, a := range args {
					if k > 0 {
						b.WriteByte(',')
					}
					b.WriteString(rewriteClause(a))
				}
			} else {
				b.WriteString(rewriteImplies(inner))
			}
			b.WriteByte(closeCh)
			i = j
			continue
		}
		if c == '"' {
			j := i + 1
			for j < len(s) && s[j] != '"' {
				j++
			}
			b.WriteString(s[i : j+1])
			i = j + 1
			continue
		}
		b.WriteByte(c)
		i++
	}
	return b.String()
}

func splitTop(s string, sep byte) []string {
	depth := 0
	var parts []string
	last := 0
	for i := 0; i < len(s); i++ {
		switch s[i] {
		case '(', '[', '{':
			depth++
		case ')', ']', '}':
			depth--
		case '"':
			for i++; i < len(s) && s[i] != '"'; i++ {
			}
		default:
			if s[i] == sep && depth == 0 {
				parts = append(parts, s[last:i])
				last = i + 1
			}
		}
	}
	return append(parts, s[last:])
}

func rewriteClause(s string) string {
	parts := splitImplies(s)
	for i := range parts {
		parts[i] = rewriteImplies(parts[i])
	}
	if len(parts) == 1 {
		return parts[0]
	}
	r := parts[len(parts)-1]
	for i := len(parts) - 2; i >= 0; i-- {
		r = "implies(" + parts[i] + "," + r + ")"
	}
	return r
}

func (env *specEnv) boolExpr(text string) (string, error) {
	t, ty, err := env.expr(text)
	if err != nil {
		return "", err
	}
	if !isBoolT(ty) {
		return "", fmt.Errorf("clause %q is not boolean", text)
	}
	return t, nil
}

func isBoolT(t types.Type) bool {
	if t == nil {
		return false
	}
	b, ok := t.Underlying().(*types.Basic)
	return ok && b.Info()&types.IsBoolean != 0
}

func (env *specEnv) expr(text string) (string, types.Type, error) {
	src := rewriteClause(text)
	x, err := parser.ParseExpr(src)
	if err != nil {
		return "", nil, fmt.Errorf("parse %q: %v", text, err)
	}
	return env.tr(x)
}

func (env *specEnv) with(name string, b binding) *specEnv {
	n := *env
	n.vars = map[string]binding{}
	for k, v := range env.vars {
		n.vars[k] = v
	}
	n.vars[name] = b
	return &n
}

func (env *specEnv) ident(name string) (binding, bool) {
	if b, ok := env.vars[name]; ok {
		return b, true
	}
	if env.lookup != nil {
		if b, ok := env.lookup(name); ok {
			return b, true
		}
	}
	return binding{}, false
}

func (env *specEnv) pkgScope() *types.Package {
	for _, p := range env.e.p.ssa.AllPackages() {
		if p.Pkg.Path() == env.pkgPath {
			return p.Pkg
		}
	}
	return nil
}

func (env *specEnv) tr(x ast.Expr) (string, types.Type, error) {
	e := env.e
	switch n := x.(type) {
	case *ast.ParenExpr:
		return env.tr(n.X)
	case *ast.BasicLit:
		switch n.Kind {
		case token.INT:
			v := constant.MakeFromLiteral(n.Value, token.INT, 0)
			bi, _ := constBigInt(v)
			return intLit(bi), tInt, nil
		case token.FLOAT:
			v := constant.MakeFromLiteral(n.Value, token.FLOAT, 0)
			return ratLit(constBigRat(v)), tReal, nil
		case token.STRING:
			s, _ := strconv.Unquote(n.Value)
			return e.strLit(s), types.Typ[types.String], nil
		case token.CHAR:
			s, _, _, _ := strconv.UnquoteChar(n.Value[1:len(n.Value)-1], '\'')
			return intLit64(int64(s)), tInt, nil
		}
	case *ast.Ident:
		switch n.Name {
		case "true", "false":
			return n.Name, tBool, nil
		case "nil":
			return "nil", nil, nil
		}
		if b, ok := env.ident(n.Name); ok {
			return b.term, b.typOrKind(), nil
		}
		if r, ok := e.ghostRegion(n.Name); ok {
			gv := e.p.specs.GhostVars[n.Name]
			return e.get(env.cur, r), ghostType(gv.Type), nil
		}
		if gf, ok := e.p.specs.GhostFuncs[n.Name]; ok && len(gf.Params) == 0 {
			e.useGhostFunc(gf)
			return "gf." + gf.Name, ghostType(gf.Result), nil
		}
		// package-level constant or variable
		if pk := env.pkgScope(); pk != nil {
			if obj := pk.Scope().Lookup(n.Name); obj != nil {
				return env.object(obj)
			}
		}
		return "", nil, fmt.Errorf("unknown identifier %q", n.Name)
	case *ast.SelectorExpr:
		// pkg.Name ?
		if id, ok := n.X.(*ast.Ident); ok {
			if _, isVar := env.ident(id.Name); !isVar {
				if path, ok := e.p.specs.Aliases[env.pkgPath][id.Name]; ok {
					for _, p := range e.p.ssa.AllPackages() {
						if p.Pkg.Path() == path {
							if obj := p.Pkg.Scope().Lookup(n.Sel.Name); obj != nil {
								return env.object(obj)
							}
						}
					}
				}
				if pk := env.pkgScope(); pk != nil {
					for _, imp := range pk.Imports() {
						if imp.Name() == id.Name {
							if obj := imp.Scope().Lookup(n.Sel.Name); obj != nil {
								return env.object(obj)
							}
						}
					}
				}
				// any loaded package by name
				for _, p := range e.p.ssa.AllPackages() {
					if p.Pkg.Name() == id.Name {
						if obj := p.Pkg.Scope().Lookup(n.Sel.Name); obj != nil {
							return env.object(obj)
						}
					}
				}
			}
		}
		if id, ok := n.X.(*ast.Ident); ok {
			if b, ok := env.ident(id.Name); ok && b.ptr != nil {
				if pt, ok := b.typ.Underlying().(*types.Pointer); ok {
					return env.field(e.load(env.cur, b.ptr), pt.Elem(), n.Sel.Name)
				}
			}
		}
		xt, ty, err := env.tr(n.X)
		if err != nil {
			return "", nil, err
		}
		return env.field(xt, ty, n.Sel.Name)
	case *ast.UnaryExpr:
		xt, ty, err := env.tr(n.X)
		if err != nil {
			return "", nil, err
		}
		switch n.Op {
		case token.NOT:
			return not(xt), tBool, nil
		case token.SUB:
			return app("-", xt), mathType(ty), nil
		case token.ADD:
			return xt, ty, nil
		}
	case *ast.StarExpr:
		if id, ok := n.X.(*ast.Ident); ok {
			if b, ok := env.ident(id.Name); ok && b.ptr != nil {
				if pt, ok := b.typ.Underlying().(*types.Pointer); ok {
					return e.load(env.cur, b.ptr), pt.Elem(), nil
				}
			}
		}
		xt, ty, err := env.tr(n.X)
		if err != nil {
			return "", nil, err
		}
		pt, ok := ty.Underlying().(*types.Pointer)
		if !ok {
			return "", nil, fmt.Errorf("deref of non-pointer")
		}
		return app("select", e.get(env.cur, e.memRegion(pt.Elem())), xt), pt.Elem(), nil
	case *ast.BinaryExpr:
		return env.binary(n)
	case *ast.IndexExpr:
		xt, ty, err := env.tr(n.X)
		if err != nil {
			return "", nil, err
		}
		it, _, err := env.tr(n.Index)
		if err != nil {
			return "", nil, err
		}
		return env.index(xt, ty, it)
	case *ast.SliceExpr:
		xt, ty, err := env.tr(n.X)
		if err != nil {
			return "", nil, err
		}
		lo, hi := "0", ""
		if n.Low != nil {
			lo, _, err = env.tr(n.Low)
			if err != nil {
				return "", nil, err
			}
		}
		if _, ok := ty.Underlying().(*types.Slice); !ok {
			return "", nil, fmt.Errorf("slice expression on non-slice in spec")
		}
		if n.High != nil {
			hi, _, err = env.tr(n.High)
			if err != nil {
				return "", nil, err
			}
		} else {
			hi = app("s.len", xt)
		}
		return app("mk-slice", app("+", app("s.base", xt), lo), app("-", hi, lo), app("-", app("s.cap", xt), lo)), ty, nil
	case *ast.CallExpr:
		return env.call(n)
	}
	return "", nil, fmt.Errorf("unsupported spec expression %T", x)
}

func (b binding) typOrKind() types.Type {
	if b.typ != nil {
		return b.typ
	}
	switch b.kind {
	case "bool":
		return tBool
	case "real":
		return tReal
	}
	return tInt
}

func ghostType(t string) types.Type {
	switch t {
	case "bool":
		return tBool
	case "real":
		return tReal
	case "str":
		return types.Typ[types.String]
	case "slice":
		return types.NewSlice(types.Typ[types.Uint8])
	case "bytes":
		return types.NewArray(types.Typ[types.Uint8], 1<<40)
	case "reals":
		return types.NewArray(types.Typ[types.Float64], 1<<40)
	case "intset":
		return types.NewArray(types.Typ[types.Bool], 1<<40)
	case "intmap":
		return types.NewArray(types.Typ[types.Int64], 1<<40)
	case "iface":
		return types.NewInterfaceType(nil, nil)
	}
	return tInt
}

func mathType(t types.Type) types.Type {
	if t == nil {
		return tInt
	}
	if isFloat(t) {
		return tReal
	}
	return tInt
}

func (env *specEnv) object(obj types.Object) (string, types.Type, error) {
	e := env.e
	switch o := obj.(type) {
	case *types.Const:
		v := o.Val()
		switch v.Kind() {
		case constant.Int:
			bi, _ := constBigInt(v)
			return intLit(bi), o.Type(), nil
		case constant.Float:
			return ratLit(constBigRat(v)), o.Type(), nil
		case constant.Bool:
			if constant.BoolVal(v) {
				return "true", tBool, nil
			}
			return "false", tBool, nil
		case constant.String:
			return e.strLit(constant.StringVal(v)), o.Type(), nil
		}
	case *types.Var:
		// package-level variable
		for _, p := range e.p.ssa.AllPackages() {
			if p.Pkg == o.Pkg() {
				if g, ok := p.Members[o.Name()].(interface{ String() string }); ok {
					_ = g
				}
				if g := p.Var(o.Name()); g != nil {
					return e.get(env.cur, e.globalRegion(g)), o.Type(), nil
				}
			}
		}
	}
	return "", nil, fmt.Errorf("unsupported object %s in spec", obj.Name())
}

func (env *specEnv) field(xt string, ty types.Type, name string) (string, types.Type, error) {
	e := env.e
	if ty == nil {
		return "", nil, fmt.Errorf("field %s of untyped value", name)
	}
	if isTime(ty) {
		switch name {
		case "abs":
			return app("t.abs", xt), tInt, nil
		case "loc":
			return app("t.loc", xt), tInt, nil
		}
	}
	if pt, ok := ty.Underlying().(*types.Pointer); ok {
		// deref in current state
		xt = app("select", e.get(env.cur, e.memRegion(pt.Elem())), xt)
		ty = pt.Elem()
	}
	st, ok := ty.Underlying().(*types.Struct)
	if !ok {
		return "", nil, fmt.Errorf("field %s of non-struct %s", name, ty)
	}
	si := e.st.structOf(ty)
	for i := 0; i < st.NumFields(); i++ {
		if st.Field(i).Name() == name {
			return app(si.fields[i], xt), st.Field(i).Type(), nil
		}
	}
	// promoted fields through embedded structs
	for i := 0; i < st.NumFields(); i++ {
		if st.Field(i).Embedded() {
			if t, rt, err := env.field(app(si.fields[i], xt), st.Field(i).Type(), name); err == nil {
				return t, rt, nil
			}
		}
	}
	return "", nil, fmt.Errorf("no field %s in %s", name, ty)
}

func (env *specEnv) index(xt string, ty types.Type, it string) (string, types.Type, error) {
	e := env.e
	if ty == nil {
		return "", nil, fmt.Errorf("index of untyped value")
	}
	switch u := ty.Underlying().(type) {
	case *types.Slice:
		return app("select", e.get(env.cur, e.memRegion(u.Elem())), app("ea", app("s.base", xt), it)), u.Elem(), nil
	case *types.Array:
		return app("select", xt, it), u.Elem(), nil
	case *types.Basic:
		if u.Info()&types.IsString != 0 {
			return app("gstr.at", xt, it), types.Typ[types.Uint8], nil
		}
	case *types.Map:
		_, val, _ := e.mapRegions(u)
		return app("select", app("select", e.get(env.cur, val), xt), it), u.Elem(), nil
	case *types.Pointer:
		if arr, ok := u.Elem().Underlying().(*types.Array); ok {
			// flattened array: xt is the base address
			return app("select", e.get(env.cur, e.memRegion(arr.Elem())), app("ea", xt, it)), arr.Elem(), nil
		}
	}
	return "", nil, fmt.Errorf("cannot index %s", ty)
}

func (env *specEnv) binary(n *ast.BinaryExpr) (string, types.Type, error) {
	xt, xty, err := env.tr(n.X)
	if err != nil {
		return "", nil, err
	}
	yt, yty, err := env.tr(n.Y)
	if err != nil {
		return "", nil, err
	}
	// nil comparisons
	if xt == "nil" || yt == "nil" {
		v, ty := xt, xty
		if xt == "nil" {
			v, ty = yt, yty
		}
		var t string
		switch ty.Underlying().(type) {
		case *types.Slice:
			t = eq(app("s.base", v), "0")
		case *types.Interface:
			t = eq(app("i.typ", v), "0")
		default:
			t = eq(v, "0")
		}
		if n.Op == token.NEQ {
			t = not(t)
		}
		return t, tBool, nil
	}
	real := isFloat(xty) || isFloat(yty) || xty == tReal || yty == tReal
	if real {
		if !(isFloat(xty) || xty == tReal) {
			xt = toReal(xt)
		}
		if !(isFloat(yty) || yty == tReal) {
			yt = toReal(yt)
		}
	}
	switch n.Op {
	case token.LAND:
		return and(xt, yt), tBool, nil
	case token.LOR:
		return or(xt, yt), tBool, nil
	case token.EQL:
		if xty != nil && yty != nil && isString(xty) && isString(yty) {
			return env.e.strEq(xt, yt), tBool, nil
		}
		return eq(xt, yt), tBool, nil
	case token.NEQ:
		if xty != nil && yty != nil && isString(xty) && isString(yty) {
			return not(env.e.strEq(xt, yt)), tBool, nil
		}
		return not(eq(xt, yt)), tBool, nil
	case token.LSS:
		return app("<", xt, yt), tBool, nil
	case token.LEQ:
		return app("<=", xt, yt), tBool, nil
	case token.GTR:
		return app(">", xt, yt), tBool, nil
	case token.GEQ:
		return app(">=", xt, yt), tBool, nil
	}
	rt := types.Type(tInt)
	if real {
		rt = tReal
	}
	switch n.Op {
	case token.ADD:
		return app("+", xt, yt), rt, nil
	case token.SUB:
		return app("-", xt, yt), rt, nil
	case token.MUL:
		if !real && !isNumeral(xt) && !isNumeral(yt) && !boundVarRe.MatchString(xt) && !boundVarRe.MatchString(yt) {
			env.e.product(xt, yt)
		}
		return app("*", xt, yt), rt, nil
	case token.QUO:
		if real {
			return app("/", xt, yt), rt, nil
		}
		if !isNumeral(yt) {
			q := app("tdivv", xt, yt)
			env.e.assume(implies(and(app(">=", xt, "0"), app(">", yt, "0")), and(app("<=", app("*", q, yt), xt), app("<", xt, app("+", app("*", q, yt), yt)), app("<=", "0", q), app("<=", q, xt))))
			return q, rt, nil
		}
		return app("tdiv", xt, yt), rt, nil
	case token.REM:
		return app("tmod", xt, yt), rt, nil
	}
	return "", nil, fmt.Errorf("unsupported operator %s in spec", n.Op)
}

var boundVarRe = regexp.MustCompile(`(^|[ (])(q\d+|gp)\.`)

func isNumeral(t string) bool {
	if strings.HasPrefix(t, "(- ") {
		t = strings.TrimSuffix(t[3:], ")")
	}
	_, err := strconv.ParseInt(t, 10, 64)
	return err == nil
}

func toReal(t string) string {
	if _, err := strconv.ParseInt(t, 10, 64); err == nil {
		return t + ".0"
	}
	return app("to_real", t)
}

func (env *specEnv) args(n *ast.CallExpr) ([]string, []types.Type, error) {
	var ts []string
	var tys []types.Type
	for _, a := range n.Args {
		t, ty, err := env.tr(a)
		if err != nil {
			return nil, nil, err
		}
		ts = append(ts, t)
		tys = append(tys, ty)
	}
	return ts, tys, nil
}

func (env *specEnv) call(n *ast.CallExpr) (string, types.Type, error) {
	e := env.e
	fname := ""
	switch f := n.Fun.(type) {
	case *ast.Ident:
		fname = f.Name
	case *ast.SelectorExpr:
		if id, ok := f.X.(*ast.Ident); ok {
			fname = id.Name + "." + f.Sel.Name
		}
	}
	switch fname {
	case "old":
		if env.pre == nil {
			return "", nil, fmt.Errorf("old() not available here")
		}
		n2 := *env
		n2.cur = env.pre
		return n2.tr(n.Args[0])
	case "prev": // prev(x): value of loop variable x at the start of the iteration (in step clauses)
		id, ok := n.Args[0].(*ast.Ident)
		if !ok || env.prevOf == nil {
			return "", nil, fmt.Errorf("prev(name) is only available in loop step clauses")
		}
		b, ok := env.prevOf(id.Name)
		if !ok {
			return "", nil, fmt.Errorf("prev(%s): not a variable of this loop", id.Name)
		}
		return b.term, b.typOrKind(), nil
	case "phi": // phi(L, name): value of variable `name` at the header of loop L (its value when the loop was left)
		if len(n.Args) != 2 || env.phiOf == nil {
			return "", nil, fmt.Errorf("phi(loop, name) is only available in exit clauses")
		}
		lit, ok1 := n.Args[0].(*ast.BasicLit)
		id, ok2 := n.Args[1].(*ast.Ident)
		if !ok1 || !ok2 {
			return "", nil, fmt.Errorf("phi(loop, name)")
		}
		l, _ := strconv.Atoi(lit.Value)
		b, ok := env.phiOf(l, id.Name)
		if !ok {
			return "", nil, fmt.Errorf("phi(%d, %s): no such loop variable", l, id.Name)
		}
		return b.term, b.typOrKind(), nil
	case "forall", "exists":
		if len(n.Args) != 4 {
			return "", nil, fmt.Errorf("%s(i, lo, hi, body)", fname)
		}
		id, ok := n.Args[0].(*ast.Ident)
		if !ok {
			return "", nil, fmt.Errorf("%s: first argument must be an identifier", fname)
		}
		lo, _, err := env.tr(n.Args[1])
		if err != nil {
			return "", nil, err
		}
		hi, _, err := env.tr(n.Args[2])
		if err != nil {
			return "", nil, err
		}
		e.nbound++
		bv := fmt.Sprintf("q%d.%s", e.nbound, id.Name)
		body, _, err := env.with(id.Name, binding{term: bv, kind: "int"}).tr(n.Args[3])
		if err != nil {
			return "", nil, err
		}
		rng := and(app("<=", lo, bv), app("<", bv, hi))
		if fname == "forall" {
			return fmt.Sprintf("(forall ((%s Int)) %s)", bv, implies(rng, body)), tBool, nil
		}
		return fmt.Sprintf("(exists ((%s Int)) %s)", bv, and(rng, body)), tBool, nil
	case "forallint", "existsint", "forallstr", "forallreal":
		// forallint(v1, ..., vn, [pattern(t1, ..., tk),] body); forallstr binds string-sorted variables
		if len(n.Args) < 2 {
			return "", nil, fmt.Errorf("%s(vars..., [pattern(...),] body)", fname)
		}
		env2 := env
		var decls []string
		k := 0
		for ; k < len(n.Args)-1; k++ {
			id, ok := n.Args[k].(*ast.Ident)
			if !ok {
				break
			}
			e.nbound++
			bv := fmt.Sprintf("q%d.%s", e.nbound, id.Name)
			if fname == "forallstr" {
				env2 = env2.with(id.Name, binding{term: bv, typ: types.Typ[types.String]})
				decls = append(decls, "("+bv+" Str)")
			} else if fname == "forallreal" {
				env2 = env2.with(id.Name, binding{term: bv, kind: "real"})
				decls = append(decls, "("+bv+" Real)")
			} else {
				env2 = env2.with(id.Name, binding{term: bv, kind: "int"})
				decls = append(decls, "("+bv+" Int)")
			}
		}
		if len(decls) == 0 {
			return "", nil, fmt.Errorf("%s: no bound variables", fname)
		}
		var pats []string
		if k < len(n.Args)-1 {
			pc, ok := n.Args[k].(*ast.CallExpr)
			if !ok || len(n.Args)-1-k != 1 {
				return "", nil, fmt.Errorf("%s: expected pattern(...) before the body", fname)
			}
			if id, ok := pc.Fun.(*ast.Ident); !ok || id.Name != "pattern" {
				return "", nil, fmt.Errorf("%s: expected pattern(...) before the body", fname)
			}
			for _, pa := range pc.Args {
				pt, _, err := env2.tr(pa)
				if err != nil {
					return "", nil, err
				}
				pats = append(pats, pt)
			}
		}
		body, _, err := env2.tr(n.Args[len(n.Args)-1])
		if err != nil {
			return "", nil, err
		}
		q := "forall"
		if fname == "existsint" {
			q = "exists"
		}
		if len(pats) > 0 {
			body = fmt.Sprintf("(! %s :pattern (%s))", body, strings.Join(pats, " "))
		}
		return fmt.Sprintf("(%s (%s) %s)", q, strings.Join(decls, " "), body), tBool, nil
	}
	ts, tys, err := env.args(n)
	if err != nil {
		return "", nil, err
	}
	need := func(k int) error {
		if len(ts) != k {
			return fmt.Errorf("%s expects %d arguments", fname, k)
		}
		return nil
	}
	switch fname {
	case "implies":
		if err := need(2); err != nil {
			return "", nil, err
		}
		return implies(ts[0], ts[1]), tBool, nil
	case "ite":
		if err := need(3); err != nil {
			return "", nil, err
		}
		return ite(ts[0], ts[1], ts[2]), tys[1], nil
	case "len":
		if err := need(1); err != nil {
			return "", nil, err
		}
		switch u := tys[0].Underlying().(type) {
		case *types.Slice:
			return app("s.len", ts[0]), tInt, nil
		case *types.Basic:
			return app("gstr.len", ts[0]), tInt, nil
		case *types.Array:
			return intLit64(u.Len()), tInt, nil
		case *types.Map:
			_, _, ln := e.mapRegions(u)
			return ite(eq(ts[0], "0"), "0", app("select", e.get(env.cur, ln), ts[0])), tInt, nil
		}
		return "", nil, fmt.Errorf("len of %s", tys[0])
	case "cap":
		return app("s.cap", ts[0]), tInt, nil
	case "mem": // mem(s): the current element memory of slice s, as an array value
		sl, ok := tys[0].Underlying().(*types.Slice)
		if !ok {
			return "", nil, fmt.Errorf("mem(s): s must be a slice")
		}
		return e.get(env.cur, e.memRegion(sl.Elem())), types.NewArray(sl.Elem(), 1<<40), nil
	case "base":
		return app("s.base", ts[0]), tInt, nil
	case "in": // in(k, m): map membership
		mt, ok := tys[1].Underlying().(*types.Map)
		if !ok {
			return "", nil, fmt.Errorf("in(k, m): m must be a map")
		}
		dom, _, _ := e.mapRegions(mt)
		return and(not(eq(ts[1], "0")), app("select", app("select", e.get(env.cur, dom), ts[1]), ts[0])), tBool, nil
	case "typeis":
		lit, ok := n.Args[1].(*ast.BasicLit)
		if !ok {
			return "", nil, fmt.Errorf("typeis(x, \"type\")")
		}
		s, _ := strconv.Unquote(lit.Value)
		ty := env.resolveType(s)
		if ty == nil {
			return "", nil, fmt.Errorf("typeis: unknown type %q", s)
		}
		if id, known := e.ifaceType[e.canon(ts[0])]; known {
			if id == e.st.typeID(ty) {
				return "true", tBool, nil
			}
			return "false", tBool, nil
		}
		return eq(app("i.typ", ts[0]), intLit64(int64(e.st.typeID(ty)))), tBool, nil
	case "kindis": // kindis(x, "int64"): the dynamic type of interface value x has this underlying kind
		lit, ok := n.Args[1].(*ast.BasicLit)
		if !ok {
			return "", nil, fmt.Errorf("kindis(x, \"kind\")")
		}
		s, _ := strconv.Unquote(lit.Value)
		kc, ok := kindNames[s]
		if !ok {
			return "", nil, fmt.Errorf("kindis: unknown kind %q", s)
		}
		if id, known := e.ifaceType[e.canon(ts[0])]; known {
			if id%32 == kc {
				return "true", tBool, nil
			}
			return "false", tBool, nil
		}
		return and(not(eq(app("i.typ", ts[0]), "0")), eq(app("mod", app("i.typ", ts[0]), "32"), strconv.Itoa(kc))), tBool, nil
	case "asint":
		_, ub := e.st.boxFns("Int")
		return app(ub, app("i.val", ts[0])), tInt, nil
	case "asstr":
		_, ub := e.st.boxFns("Str")
		return app(ub, app("i.val", ts[0])), types.Typ[types.String], nil
	case "asslice": // asslice(x, "elemtype"): the slice held by interface x, viewed with the given element type
		lit, ok := n.Args[1].(*ast.BasicLit)
		if !ok {
			return "", nil, fmt.Errorf("asslice(x, \"elemtype\")")
		}
		s, _ := strconv.Unquote(lit.Value)
		et := env.resolveType(s)
		if et == nil {
			return "", nil, fmt.Errorf("asslice: unknown element type %q", s)
		}
		_, ub := e.st.boxFns("Slice")
		return app(ub, app("i.val", ts[0])), types.NewSlice(et), nil
	case "asbytes":
		_, ub := e.st.boxFns("Slice")
		return app(ub, app("i.val", ts[0])), types.NewSlice(types.Typ[types.Uint8]), nil
	case "abs":
		if isTime(tys[0]) {
			return app("t.abs", ts[0]), tInt, nil
		}
		return app("ite", app(">=", ts[0], "0"), ts[0], app("-", ts[0])), tys[0], nil
	case "loc":
		return app("t.loc", ts[0]), tInt, nil
	case "mktime":
		return app("mk-time", ts[0], ts[1]), env.resolveType("time.Time"), nil
	case "min":
		return app("imin", ts[0], ts[1]), tInt, nil
	case "max":
		return app("imax", ts[0], ts[1]), tInt, nil
	case "real":
		if isFloat(tys[0]) || tys[0] == tReal {
			return ts[0], tReal, nil
		}
		return toReal(ts[0]), tReal, nil
	case "floor":
		return app("to_int", ts[0]), tInt, nil
	case "trunc":
		return app("rtrunc", ts[0]), tInt, nil
	case "isint":
		return app("is_int", ts[0]), tBool, nil
	case "div": // floor division
		return app("div", ts[0], ts[1]), tInt, nil
	case "mod":
		return app("mod", ts[0], ts[1]), tInt, nil
	case "int", "int8", "int16", "int32", "int64", "uint", "uint8", "uint16", "uint32", "uint64", "byte", "time.Duration":
		// mathematical view: conversions in specs do not wrap
		if isFloat(tys[0]) || tys[0] == tReal {
			return app("rtrunc", ts[0]), tInt, nil
		}
		return ts[0], tInt, nil
	case "float64", "float32":
		if isFloat(tys[0]) || tys[0] == tReal {
			return ts[0], tReal, nil
		}
		return toReal(ts[0]), tReal, nil
	case "wrap8", "wrap16", "wrap32", "wrap64", "wrapu8", "wrapu16", "wrapu32", "wrapu64":
		kinds := map[string]types.BasicKind{"wrap8": types.Int8, "wrap16": types.Int16, "wrap32": types.Int32, "wrap64": types.Int64,
			"wrapu8": types.Uint8, "wrapu16": types.Uint16, "wrapu32": types.Uint32, "wrapu64": types.Uint64}
		return wrapTo(types.Typ[kinds[fname]], ts[0]), tInt, nil
	case "le16", "le32", "le64", "sle16", "sle32", "sle64", "le8", "sle8":
		// little-endian read of a byte slice at offset: leN(s, off)
		if err := need(2); err != nil {
			return "", nil, err
		}
		nb := map[string]int{"le8": 1, "sle8": 1, "le16": 2, "sle16": 2, "le32": 4, "sle32": 4, "le64": 8, "sle64": 8}[fname]
		var parts []string
		for k := 0; k < nb; k++ {
			bt, _, err := env.index(ts[0], tys[0], app("+", ts[1], strconv.Itoa(k)))
			if err != nil {
				return "", nil, err
			}
			if k == 0 {
				parts = append(parts, bt)
			} else {
				parts = append(parts, app("*", pow2(uint(8*k)).String(), bt))
			}
		}
		sum := parts[0]
		if len(parts) > 1 {
			sum = app("+", parts...)
		}
		if strings.HasPrefix(fname, "s") {
			kinds := map[int]types.BasicKind{1: types.Int8, 2: types.Int16, 4: types.Int32, 8: types.Int64}
			sum = wrapTo(types.Typ[kinds[nb]], sum)
		}
		return sum, tInt, nil
	case "at": // at(p, a): the object of p's pointee type stored at address a (for frame clauses over all objects)
		pt, ok := tys[0].Underlying().(*types.Pointer)
		if !ok {
			return "", nil, fmt.Errorf("at(p, a): p must be a pointer")
		}
		return app("select", e.get(env.cur, e.memRegion(pt.Elem())), ts[1]), pt.Elem(), nil
	case "oldtop": // oldtop(): first address not yet allocated in the pre-state
		if env.pre == nil {
			return "", nil, fmt.Errorf("oldtop() needs a pre-state")
		}
		return e.get(env.pre, "heapTop"), tInt, nil
	case "fresh": // fresh(s): the slice/pointer was allocated after the pre-state
		if env.pre == nil {
			return "", nil, fmt.Errorf("fresh() needs a pre-state")
		}
		top := e.get(env.pre, "heapTop")
		if _, ok := tys[0].Underlying().(*types.Slice); ok {
			return app(">=", app("s.base", ts[0]), top), tBool, nil
		}
		return app(">=", ts[0], top), tBool, nil
	case "cat": // cat(a, b): string concatenation
		e.declareStrCat()
		return app("gstr.cat", ts[0], ts[1]), types.Typ[types.String], nil
	case "same": // same(a, b): identical values in the model (for strings: the same abstract string)
		return eq(ts[0], ts[1]), tBool, nil
	case "streq": // streq(s, t): same length and bytes
		return env.e.strEq(ts[0], ts[1]), tBool, nil
	}
	if gf, ok := e.p.specs.GhostFuncs[fname]; ok {
		e.useGhostFunc(gf)
		if len(ts) != len(gf.Params) {
			return "", nil, fmt.Errorf("ghost func %s expects %d args", fname, len(gf.Params))
		}
		for i := range ts {
			if gf.Params[i].Type == "real" && !(isFloat(tys[i]) || tys[i] == tReal) {
				ts[i] = toReal(ts[i])
			}
		}
		return app("gf."+gf.Name, ts...), ghostType(gf.Result), nil
	}
	return "", nil, fmt.Errorf("unknown spec function %q", fname)
}

func (env *specEnv) resolveType(s string) types.Type {
	s = strings.ReplaceAll(s, "@/", modulePath+"/")
	if strings.HasPrefix(s, "[]") {
		if et := env.resolveType(s[2:]); et != nil {
			return types.NewSlice(et)
		}
		return nil
	}
	if obj := types.Universe.Lookup(s); obj != nil {
		if tn, ok := obj.(*types.TypeName); ok {
			return tn.Type()
		}
	}
	ptr := false
	if strings.HasPrefix(s, "*") {
		ptr = true
		s = s[1:]
	}
	i := strings.LastIndex(s, ".")
	pkgPath, name := env.pkgPath, s
	if i >= 0 {
		pkgPath, name = s[:i], s[i+1:]
	}
	for _, p := range env.e.p.ssa.AllPackages() {
		if p.Pkg.Path() == pkgPath || (i >= 0 && !strings.Contains(pkgPath, "/") && p.Pkg.Name() == pkgPath && (strings.HasPrefix(p.Pkg.Path(), modulePath) || p.Pkg.Path() == pkgPath)) {
			if obj := p.Pkg.Scope().Lookup(name); obj != nil {
				if ptr {
					return types.NewPointer(obj.Type())
				}
				return obj.Type()
			}
		}
	}
	return nil
}

// useGhostFunc declares (or defines) a ghost function on first use.
func (e *Enc) useGhostFunc(gf *GhostFunc) {
	if e.ghostUsed[gf.Name] {
		return
	}
	e.ghostUsed[gf.Name] = true
	var ps, pss []string
	for _, p := range gf.Params {
		ps = append(ps, fmt.Sprintf("(%s %s)", "gp."+p.Name, ghostSort(p.Type)))
		pss = append(pss, ghostSort(p.Type))
	}
	if gf.Body == "" {
		e.ghostDecls = append(e.ghostDecls, fmt.Sprintf("(declare-fun gf.%s (%s) %s)", gf.Name, strings.Join(pss, " "), ghostSort(gf.Result)))
		return
	}
	// defined: translate body with params bound
	if gf.Rec {
		// make the symbol known before translating the (recursive) body
		e.ghostUsed[gf.Name] = true
	}
	fr := &frame{e: e, fn: e.root, params: map[string]binding{}}
	env := &specEnv{fr: fr, e: e, vars: map[string]binding{}, cur: &state{regs: map[string]string{}, stale: map[string]int{}}, pkgPath: gf.PkgPath}
	for _, p := range gf.Params {
		env.vars[p.Name] = binding{term: "gp." + p.Name, kind: p.Type, typ: ghostType(p.Type)}
	}
	t, _, err := env.expr(gf.Body)
	if err != nil {
		e.errf("ghost func %s: %v", gf.Name, err)
		return
	}
	if gf.Opaque {
		var as []string
		for _, p := range gf.Params {
			as = append(as, "gp."+p.Name)
		}
		call := app("gf."+gf.Name, as...)
		e.ghostDecls = append(e.ghostDecls, fmt.Sprintf("(declare-fun gf.%s (%s) %s)", gf.Name, strings.Join(pss, " "), ghostSort(gf.Result)))
		if e.rootSpec != nil && e.rootSpec.Options["reveal:"+gf.Name] != "" {
			e.ghostDecls = append(e.ghostDecls, fmt.Sprintf("(assert (forall (%s) (! (= %s %s) :pattern (%s))))", strings.Join(ps, " "), call, t, call))
		}
		return
	}
	if gf.Rec {
		e.ghostDecls = append(e.ghostDecls, fmt.Sprintf("(define-fun-rec gf.%s (%s) %s %s)", gf.Name, strings.Join(ps, " "), ghostSort(gf.Result), t))
		return
	}
	e.ghostDecls = append(e.ghostDecls, fmt.Sprintf("(define-fun gf.%s (%s) %s %s)", gf.Name, strings.Join(ps, " "), ghostSort(gf.Result), t))
}
