package main

import (
	"fmt"
	"go/token"
	"go/types"
	"sort"
	"strings"

	"golang.org/x/tools/go/ssa"
)

// ---------------------------------------------------------------------------
// Program-level context

type Prog struct {
	fset  *token.FileSet
	ssa   *ssa.Program
	specs *Specs
	funcs map[string]*ssa.Function
	eff   map[*ssa.Function]*effSet
}

// state is an immutable-ish map region → current SMT term.
type state struct {
	regs  map[string]string
	stale map[string]int // regions havocked before their sort was known: region → unique id
	epoch int
}

func (s *state) clone() *state {
	n := &state{regs: make(map[string]string, len(s.regs)), stale: map[string]int{}, epoch: s.epoch}
	for k, v := range s.regs {
		n.regs[k] = v
	}
	for k, v := range s.stale {
		n.stale[k] = v
	}
	return n
}

type pathStep struct {
	field int    // >=0: struct field
	index string // non-empty: array index term
	cont  types.Type
}

type ptrInfo struct {
	region string
	addr   string // for mem regions
	path   []pathStep
	cell   types.Type // type of the value stored in the region cell
	arrLen int64      // number of elements when flat
	flat   bool       // this pointer denotes an array flattened into element memory at addr
}

type Obligation struct {
	Name    string
	Kind    string
	Func    string
	Props   []string
	nOut    int
	Guard   string
	Goal    string
	Pos     token.Position
	Src     string
	Cover   bool // reachability cover: expected sat
	Result  string
	Backend string
	Secs    float64
	Model   map[string]string
	Output  string
	Query   string
	Params  []paramModel
	modelTerms []string
	QueryBytes int
	QueryFile  string
	enc        *Enc
	allowed    map[int]bool
	siblings   []*Obligation
	parent     *Obligation
}

func (o *Obligation) src() string {
	if o.Src == "" && o.parent != nil {
		return o.parent.Src
	}
	return o.Src
}

type paramModel struct {
	Name string
	Type string
	Term string
	Kind string // scalar|slice|string|struct...
}

type Enc struct {
	p            *Prog
	st           *sortTable
	out          []string
	regionSort   map[string]string
	regionConst  map[string]string // (region@epoch) → const name
	nfresh       int
	nepoch       int
	obls         []*Obligation
	root         *ssa.Function
	rootSpec     *FuncSpec
	errs         []string
	abstractions map[string]bool
	assumes      int
	strLits      map[string]string
	strDecls     []string
	ghostDecls   []string
	oblNames     map[string]int
	usedTrusted  map[string]string
	usedHavoc    map[string]bool
	usedInline   map[string]bool
	usedEffFree  map[string]bool
	loopsNoDecr  []string
	loopsDecr    []string
	rootParams   []paramModel
	tupleVals    map[tupleKey]string
	floatOps     []floatOp
	ninline      int
	nbound       int
	ghostUsed    map[string]bool
	axiomAsserts []string
	axiomNames   []string
	products     []prodEntry
	regionElem   map[string][2]string
	outTag       []int
	usedMarks    map[string]int
	assumedPre   map[string]string
	alias        map[string]string
	instance     string
	intValued    map[string]bool
	shadow       map[string][2]string
	ghostModel   [][2]string
	skippedImplicit int
	usedPrivate  map[string]bool
	ifaceType    map[string]int
	poisonedPaths map[string]bool
	curTag       int
	ntag         int
	curAllowed   map[int]bool
}

func newEnc(p *Prog, fn *ssa.Function, spec *FuncSpec) *Enc {
	e := &Enc{p: p, st: newSortTable(), regionSort: map[string]string{}, regionConst: map[string]string{}, root: fn, rootSpec: spec,
		abstractions: map[string]bool{}, strLits: map[string]string{}, oblNames: map[string]int{},
		usedTrusted: map[string]string{}, usedHavoc: map[string]bool{}, usedInline: map[string]bool{}, usedEffFree: map[string]bool{}, tupleVals: map[tupleKey]string{}, ghostUsed: map[string]bool{}, regionElem: map[string][2]string{}, usedMarks: map[string]int{}, assumedPre: map[string]string{}, alias: map[string]string{}, intValued: map[string]bool{}, shadow: map[string][2]string{}, usedPrivate: map[string]bool{}, ifaceType: map[string]int{}}
	e.regionSort["heapTop"] = "Int"
	return e
}

func (e *Enc) errf(format string, args ...interface{}) {
	e.errs = append(e.errs, fmt.Sprintf(format, args...))
}

func (e *Enc) emit(line string) {
	e.out = append(e.out, line)
	e.outTag = append(e.outTag, e.curTag)
}

func (e *Enc) fresh(prefix, sortName string) string {
	e.nfresh++
	n := fmt.Sprintf("%s!%d", sanitize(prefix), e.nfresh)
	e.emit(fmt.Sprintf("(declare-const %s %s)", n, sortName))
	return n
}

// memRange asserts that every cell of a fresh integer-element memory holds a value of the element type.
func (e *Enc) memRange(region, c string) {
	rg, ok := e.regionElem[region]
	if !ok {
		return
	}
	e.emit(fmt.Sprintf("(assert (forall ((zi Int)) (! (and (<= %s (select %s zi)) (<= (select %s zi) %s)) :pattern ((select %s zi))))) ;;bg", rg[0], c, c, rg[1], c))
}

func sanitize(s string) string {
	var b strings.Builder
	for _, r := range s {
		switch {
		case r >= 'a' && r <= 'z', r >= 'A' && r <= 'Z', r >= '0' && r <= '9', r == '_', r == '.':
			b.WriteRune(r)
		default:
			b.WriteByte('_')
		}
	}
	return b.String()
}

func (e *Enc) assume(t string) {
	if t == "" || t == "true" {
		return
	}
	e.emit("(assert " + t + ")")
}

func (e *Enc) define(prefix, sortName, term string) string {
	n := e.fresh(prefix, sortName)
	e.assume(eq(n, term))
	if !strings.ContainsAny(term, " ()") {
		e.alias[n] = term
	}
	return n
}

// canon resolves a constant through definitional aliases (c := d) to its root term.
func (e *Enc) canon(t string) string {
	for i := 0; i < 20; i++ {
		r, ok := e.alias[t]
		if !ok {
			return t
		}
		t = r
	}
	return t
}

// ---------------------------------------------------------------------------
// Regions

func (e *Enc) memRegion(elem types.Type) string {
	r := "mem:" + typeKey(elem)
	if _, ok := e.regionSort[r]; !ok {
		e.regionSort[r] = "(Array Int " + e.st.sortOf(elem) + ")"
		if lo, hi, ok := intRange(elem); ok {
			e.regionElem[r] = [2]string{intLit(lo), intLit(hi)}
		}
	}
	return r
}

func (e *Enc) mapRegions(mt *types.Map) (dom, val, ln string) {
	k := typeKey(mt)
	dom, val, ln = "mapdom:"+k, "mapval:"+k, "maplen:"+k
	ks, vs := e.st.sortOf(mt.Key()), e.st.sortOf(mt.Elem())
	e.regionSort[dom] = fmt.Sprintf("(Array Int (Array %s Bool))", ks)
	e.regionSort[val] = fmt.Sprintf("(Array Int (Array %s %s))", ks, vs)
	e.regionSort[ln] = "(Array Int Int)"
	return
}

func (e *Enc) globalRegion(g *ssa.Global) string {
	r := "g:" + g.String()
	if _, ok := e.regionSort[r]; !ok {
		e.regionSort[r] = e.st.sortOf(g.Type().(*types.Pointer).Elem())
	}
	return r
}

func (e *Enc) ghostRegion(name string) (string, bool) {
	gv, ok := e.p.specs.GhostVars[name]
	if !ok {
		return "", false
	}
	r := "ghost:" + name
	e.regionSort[r] = ghostSort(gv.Type)
	return r, true
}

// get returns the current term of a region in state s, creating the epoch's symbolic initial value on a miss.
func (e *Enc) get(s *state, region string) string {
	if t, ok := s.regs[region]; ok {
		return t
	}
	so, ok := e.regionSort[region]
	if !ok {
		e.errf("internal: unknown region %s", region)
		so = "Int"
	}
	key := fmt.Sprintf("%s@%d", region, s.epoch)
	if strings.HasPrefix(region, "ghost:") || isForeignGlobal(region) {
		key = region + "@0" // never havocked implicitly
	}
	if _, priv := e.p.specs.Private[region]; priv {
		key = region + "@0"
	}
	if id, ok := s.stale[region]; ok {
		key = fmt.Sprintf("%s@s%d", region, id)
	}
	c, ok := e.regionConst[key]
	if !ok {
		saved := e.curTag
		e.curTag = 0 // memoised across blocks: must be visible everywhere
		c = e.fresh("R."+region+".e"+key[strings.LastIndex(key, "@")+1:], so)
		e.regionConst[key] = c
		e.memRange(region, c)
		if region == "heapTop" {
			e.assume(app("<=", "1", c))
		}
		e.curTag = saved
	}
	s.regs[region] = c
	return c
}

func (e *Enc) set(s *state, region, term string) {
	// keep terms small: name them
	so := e.regionSort[region]
	s.regs[region] = e.define("R."+region, so, term)
}

func (e *Enc) havocRegion(s *state, region string) {
	s.regs[region] = e.fresh("H."+region, e.regionSort[region])
	e.memRange(region, s.regs[region])
	if region == "heapTop" {
		e.errf("internal: heapTop havoc")
	}
}

func isForeignGlobal(region string) bool {
	return strings.HasPrefix(region, "g:") && !strings.HasPrefix(region, "g:"+modulePath)
}

// havocAll havocs every region a callee with unknown effects could write.
func (e *Enc) havocAll(s *state, escLocals map[string]bool) {
	top := e.get(s, "heapTop")
	keep := map[string]string{}
	for r, t := range s.regs {
		if strings.HasPrefix(r, "loc:") && !escLocals[r] {
			keep[r] = t
		}
		if strings.HasPrefix(r, "ghost:") || isForeignGlobal(r) {
			keep[r] = t
		}
		if _, priv := e.p.specs.Private[r]; priv {
			keep[r] = t
			e.usedPrivate[r] = true
		}
	}
	e.nepoch++
	s.epoch = e.nepoch
	s.regs = keep
	s.stale = map[string]int{}
	// foreign globals and ghost vars not yet touched must keep their identity across epochs: handled in get()
	nt := e.fresh("heapTop", "Int")
	e.assume(app("<=", top, nt))
	s.regs["heapTop"] = nt
}

func (e *Enc) havocEffects(s *state, eff *effSet, escLocals map[string]bool) {
	if eff.all {
		e.havocAll(s, escLocals)
		// ghost state survives an unknown callee, but not a callee whose contract (or a contract below it) says it
		// modifies that ghost variable
		for _, r := range sortedKeys(eff.regs) {
			if !strings.HasPrefix(r, "ghost:") {
				continue
			}
			if _, ok := e.regionSort[r]; ok {
				e.havocRegion(s, r)
			} else {
				e.nepoch++
				s.stale[r] = e.nepoch
			}
		}
		return
	}
	for _, r := range sortedKeys(eff.regs) {
		if _, ok := e.regionSort[r]; !ok {
			continue // region never materialised in this encoding: get() after this point must not see the entry value
		}
		e.havocRegion(s, r)
	}
	for r := range escLocals {
		if _, ok := s.regs[r]; ok {
			e.havocRegion(s, r)
		}
	}
	{
		// the callee may have allocated
		top := e.get(s, "heapTop")
		nt := e.fresh("heapTop", "Int")
		e.assume(app("<=", top, nt))
		s.regs["heapTop"] = nt
	}
	// regions in eff not yet materialised: remember to give them a fresh identity
	for _, r := range sortedKeys(eff.regs) {
		if _, ok := e.regionSort[r]; !ok {
			e.nepoch++
			s.stale[r] = e.nepoch
		}
	}
}

// alloc reserves n cells (n is an SMT term) and returns the base address term.
func (e *Enc) alloc(s *state, n string) string {
	top := e.get(s, "heapTop")
	base := e.define("base", "Int", top)
	s.regs["heapTop"] = e.define("heapTop", "Int", app("+", top, app("imax", n, "0"), "1"))
	return base
}

// ---------------------------------------------------------------------------
// Pointer loads / stores

func (e *Enc) cellTerm(s *state, p *ptrInfo) string {
	base := e.get(s, p.region)
	if strings.HasPrefix(p.region, "mem:") {
		return app("select", base, p.addr)
	}
	return base
}

func (e *Enc) applyPath(t string, path []pathStep) string {
	for _, st := range path {
		if st.index != "" {
			t = app("select", t, st.index)
		} else {
			si := e.st.structOf(st.cont)
			t = app(si.fields[st.field], t)
		}
	}
	return t
}

func (e *Enc) updatePath(cur string, path []pathStep, v string) string {
	if len(path) == 0 {
		return v
	}
	st := path[0]
	if st.index != "" {
		inner := e.updatePath(app("select", cur, st.index), path[1:], v)
		return app("store", cur, st.index, inner)
	}
	si := e.st.structOf(st.cont)
	args := make([]string, len(si.fields))
	for i, f := range si.fields {
		if i == st.field {
			args[i] = e.updatePath(app(f, cur), path[1:], v)
		} else {
			args[i] = app(f, cur)
		}
	}
	return app("mk-"+si.name, args...)
}

// pathKey names the field path of a pointer (array indices ignored); poison marks a path whose contents are unknown
// for the rest of the function (see the nestedslice abstraction); poisoned reports whether p lies on or under one.
func pathKey(p *ptrInfo) string {
	k := p.region
	for _, st := range p.path {
		k += fmt.Sprintf("/%d", st.field)
	}
	return k + "/"
}

func (e *Enc) poison(p *ptrInfo) {
	if e.poisonedPaths == nil {
		e.poisonedPaths = map[string]bool{}
	}
	e.poisonedPaths[pathKey(p)] = true
}

func (e *Enc) checkPoison(p *ptrInfo, what string) {
	k := pathKey(p)
	for pk := range e.poisonedPaths {
		if strings.HasPrefix(k, pk) {
			e.errf("%s of an array field after it was sliced (nestedslice abstraction): its contents are unknown", what)
			return
		}
	}
}

func (e *Enc) load(s *state, p *ptrInfo) string {
	e.checkPoison(p, "read")
	return e.applyPath(e.cellTerm(s, p), p.path)
}

func (e *Enc) store(s *state, p *ptrInfo, v string) {
	e.checkPoison(p, "write")
	cell := e.cellTerm(s, p)
	nv := e.updatePath(cell, p.path, v)
	if strings.HasPrefix(p.region, "mem:") {
		e.set(s, p.region, app("store", e.get(s, p.region), p.addr, nv))
	} else {
		e.set(s, p.region, nv)
	}
}

// ---------------------------------------------------------------------------
// Effects inference

type effSet struct {
	all  bool
	regs map[string]bool
}

func (a *effSet) add(b *effSet) {
	if b.all {
		a.all = true
	}
	for r := range b.regs {
		a.regs[r] = true
	}
}

func (p *Prog) isEffectFree(name string) bool {
	for _, re := range p.specs.EffectFree {
		if re.MatchString(name) {
			return true
		}
	}
	return false
}

func storeRegion(addr ssa.Value) string {
	switch a := addr.(type) {
	case *ssa.FieldAddr:
		return storeRegion(a.X)
	case *ssa.IndexAddr:
		if _, ok := a.X.Type().Underlying().(*types.Slice); ok {
			if _, fresh := a.X.(*ssa.MakeSlice); fresh {
				return "" // element of a slice made by this very function
			}
			return "mem:" + typeKey(a.X.Type().Underlying().(*types.Slice).Elem())
		}
		// pointer to array
		switch x := a.X.(type) {
		case *ssa.FieldAddr, *ssa.IndexAddr:
			return storeRegion(a.X)
		case *ssa.Alloc:
			_ = x
			return "" // freshly allocated in this function: not visible in the caller's pre-state
		}
		arr := a.X.Type().Underlying().(*types.Pointer).Elem().Underlying().(*types.Array)
		return "mem:" + typeKey(arr.Elem())
	case *ssa.Global:
		return "g:" + a.String()
	case *ssa.Alloc:
		return "" // a store into memory allocated by this very function is invisible to the caller's pre-state
	}
	pt, ok := addr.Type().Underlying().(*types.Pointer)
	if !ok {
		return "?"
	}
	if arr, ok := pt.Elem().Underlying().(*types.Array); ok {
		return "mem:" + typeKey(arr.Elem())
	}
	return "mem:" + typeKey(pt.Elem())
}

func (p *Prog) effects(fn *ssa.Function, stack map[*ssa.Function]bool) *effSet {
	if es, ok := p.eff[fn]; ok {
		return es
	}
	es := &effSet{regs: map[string]bool{}}
	name := fn.String()
	if sp, ok := p.specs.Funcs[name]; ok && sp.HasMod {
		for _, m := range sp.Modifies {
			if m == "all" {
				es.all = true
			} else if m != "none" {
				es.regs[m] = true
			}
		}
		p.eff[fn] = es
		return es
	}
	if p.isEffectFree(name) {
		p.eff[fn] = es
		return es
	}
	if fn.Blocks == nil || stack[fn] || len(stack) > 12 {
		es.all = true
		if !stack[fn] {
			p.eff[fn] = es
		}
		return es
	}
	stack[fn] = true
	defer delete(stack, fn)
	if sp, ok := p.specs.Funcs[name]; ok {
		for _, m := range sp.GhostMod {
			es.regs[m] = true
		}
	}
	for _, b := range fn.Blocks {
		for _, ins := range b.Instrs {
			p.instrEffects(ins, es, stack) // keep scanning after `all`: ghost regions are not part of `all`
		}
	}
	p.eff[fn] = es
	return es
}

func (p *Prog) instrEffects(ins ssa.Instruction, es *effSet, stack map[*ssa.Function]bool) {
	switch i := ins.(type) {
	case *ssa.Store:
		r := storeRegion(i.Addr)
		if r == "?" {
			es.all = true
		} else if r != "" {
			es.regs[r] = true
		}
	case *ssa.MapUpdate:
		k := typeKey(i.Map.Type().Underlying())
		es.regs["mapdom:"+k], es.regs["mapval:"+k], es.regs["maplen:"+k] = true, true, true
	case *ssa.Send, *ssa.Select, *ssa.Go:
		// channel operations do not write modelled memory; goroutines are not modelled
	case *ssa.Call:
		es.add(p.callEffects(&i.Call, stack))
	case *ssa.Defer:
		es.add(p.callEffects(&i.Call, stack))
	}
}

func (p *Prog) callEffects(c *ssa.CallCommon, stack map[*ssa.Function]bool) *effSet {
	es := &effSet{regs: map[string]bool{}}
	if c.IsInvoke() {
		name := invokeName(c)
		if sp, ok := p.specs.Funcs[name]; ok && sp.HasMod {
			for _, m := range sp.Modifies {
				if m == "all" {
					es.all = true
				} else if m != "none" {
					es.regs[m] = true
				}
			}
			return es
		}
		if p.isEffectFree(name) {
			return es
		}
		es.all = true
		return es
	}
	switch v := c.Value.(type) {
	case *ssa.Builtin:
		switch v.Name() {
		case "append", "copy":
			if sl, ok := c.Args[0].Type().Underlying().(*types.Slice); ok {
				es.regs["mem:"+typeKey(sl.Elem())] = true
			}
		case "delete":
			k := typeKey(c.Args[0].Type().Underlying())
			es.regs["mapdom:"+k], es.regs["mapval:"+k], es.regs["maplen:"+k] = true, true, true
		}
		return es
	case *ssa.Function:
		return p.effects(v, stack)
	case *ssa.MakeClosure:
		return p.effects(v.Fn.(*ssa.Function), stack)
	}
	es.all = true
	return es
}

// ---------------------------------------------------------------------------
// Loops

type loopInfo struct {
	header  *ssa.BasicBlock
	ordinal int
	body    map[*ssa.BasicBlock]bool
	spec    *LoopSpec
	parent  *loopInfo
	// set while encoding
	hdrEnv    map[string]binding
	hdrState  *state
	measure   string
	isRangeIx bool
}

func findLoops(fn *ssa.Function) (map[*ssa.BasicBlock]*loopInfo, error) {
	loops := map[*ssa.BasicBlock]*loopInfo{}
	for _, b := range fn.Blocks {
		for _, s := range b.Succs {
			if s.Dominates(b) { // back edge b→s
				li := loops[s]
				if li == nil {
					li = &loopInfo{header: s, body: map[*ssa.BasicBlock]bool{s: true}}
					loops[s] = li
				}
				// collect body: nodes reaching b without passing s
				var stack []*ssa.BasicBlock
				if !li.body[b] {
					li.body[b] = true
					stack = append(stack, b)
				}
				for len(stack) > 0 {
					n := stack[len(stack)-1]
					stack = stack[:len(stack)-1]
					for _, p := range n.Preds {
						if !li.body[p] {
							li.body[p] = true
							stack = append(stack, p)
						}
					}
				}
			}
		}
	}
	var hs []*ssa.BasicBlock
	for h := range loops {
		hs = append(hs, h)
	}
	sort.Slice(hs, func(i, j int) bool { return hs[i].Index < hs[j].Index })
	for i, h := range hs {
		loops[h].ordinal = i
		loops[h].isRangeIx = strings.HasPrefix(h.Comment, "rangeindex")
	}
	// parents: smallest enclosing loop
	for _, h := range hs {
		var best *loopInfo
		for _, h2 := range hs {
			if h2 != h && loops[h2].body[h] {
				if best == nil || len(loops[h2].body) < len(best.body) {
					best = loops[h2]
				}
			}
		}
		loops[h].parent = best
	}
	// reducibility check: every edge into a loop body from outside must target the header
	for _, li := range loops {
		for b := range li.body {
			if b == li.header {
				continue
			}
			for _, p := range b.Preds {
				if !li.body[p] {
					return nil, fmt.Errorf("irreducible loop at block %d", li.header.Index)
				}
			}
		}
	}
	return loops, nil
}

func rpo(fn *ssa.Function) []*ssa.BasicBlock {
	seen := map[*ssa.BasicBlock]bool{}
	var post []*ssa.BasicBlock
	var dfs func(b *ssa.BasicBlock)
	dfs = func(b *ssa.BasicBlock) {
		seen[b] = true
		for _, s := range b.Succs {
			if s.Dominates(b) {
				continue
			}
			if !seen[s] {
				dfs(s)
			}
		}
		post = append(post, b)
	}
	dfs(fn.Blocks[0])
	for i, j := 0, len(post)-1; i < j; i, j = i+1, j-1 {
		post[i], post[j] = post[j], post[i]
	}
	return post
}
