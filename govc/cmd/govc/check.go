package main

import (
	"encoding/json"
	"fmt"
	"os"
	"path/filepath"
	"sort"
	"strconv"
	"strings"
	"time"
)

type knownFinding struct {
	Kind       string `json:"kind"` // "known" | "fixed"
	Property   string `json:"property"`
	Obligation string `json:"obligation,omitempty"`
	Witness    string `json:"witness,omitempty"`
	What       string `json:"what"`
	Commit     string `json:"commit,omitempty"`
}

type baselineFile struct {
	Property    string   `json:"property"`
	Obligations []string `json:"obligations"`
}

func jsonMarshalIndent(v interface{}) ([]byte, error) { return json.MarshalIndent(v, "", " ") }

func loadKnown() []knownFinding {
	var ks []knownFinding
	b, err := os.ReadFile(filepath.Join(*verifDir, "known_findings.json"))
	if err != nil {
		return nil
	}
	_ = json.Unmarshal(b, &ks)
	return ks
}

func loadBaseline(prop string) map[string]bool {
	b, err := os.ReadFile(filepath.Join(*verifDir, "baseline", prop+".json"))
	if err != nil {
		return nil
	}
	var bf baselineFile
	if json.Unmarshal(b, &bf) != nil {
		return nil
	}
	m := map[string]bool{}
	for _, o := range bf.Obligations {
		m[o] = true
	}
	return m
}

func explicitKind(k string) bool {
	switch k {
	case "ensures", "exit", "inv-entry", "inv-preserved", "call-pre", "assert", "decreases", "step":
		return true
	}
	return false
}

// oblKindOf extracts the kind from an obligation name "<func>/<kind>#<label>".
func oblKindOf(name string) string {
	i := strings.Index(name, "/")
	for i >= 0 {
		rest := name[i+1:]
		if j := strings.Index(rest, "#"); j >= 0 && !strings.Contains(rest[:j], "/") {
			return rest[:j]
		}
		k := strings.Index(rest, "/")
		if k < 0 {
			break
		}
		i += k + 1
	}
	return ""
}

type violation struct {
	Obligation string
	Reason     string
	Replay     string
	NoInput    bool
}

func cmdCheck() int {
	start := time.Now()
	prop := *propFlag
	if prop == "" {
		fmt.Fprintln(os.Stderr, "check: -prop required")
		return 2
	}
	seed, _ := strconv.Atoi(os.Getenv("VERIF_SEED"))
	secs := 10
	if *tier == "thorough" {
		secs = 60
	}
	if *timeoutS > 0 {
		secs = *timeoutS
	}
	replayDir := filepath.Join(*verifDir, "replays")
	_ = os.MkdirAll(replayDir, 0o755)
	evPath := filepath.Join(*verifDir, "evidence", prop+".json"+os.Getenv("VERIF_EVIDENCE_SUFFIX"))
	_ = os.MkdirAll(filepath.Dir(evPath), 0o755)

	var viols []violation
	failClosed := func(name, reason string) {
		for i := range viols {
			if viols[i].Obligation == name {
				if !strings.Contains(viols[i].Reason, reason) && len(viols[i].Reason) < 2000 {
					viols[i].Reason += "; " + reason
				}
				return
			}
		}
		viols = append(viols, violation{Obligation: name, Reason: reason, NoInput: true})
	}

	pats := specPackages(prop)
	if len(pats) == 0 {
		failClosed(prop+"/setup", "no contract file in "+*repoDir+" mentions "+prop)
	}
	var p *Prog
	var err error
	if len(pats) > 0 {
		p, err = loadProg(pats)
		if err != nil {
			failClosed(prop+"/load", "the tree does not load with -tags=verif: "+err.Error())
		}
	}
	smtDir, _ := os.MkdirTemp("", "govc-smt")
	defer os.RemoveAll(smtDir)

	var results []*funcResult
	if p != nil {
		for _, m := range p.specs.Errors {
			failClosed(prop+"/spec", "contract file error: "+m)
		}
		// canaries are run together with the property
		var problems []string
		results, problems = runPropWithCanaries(p, prop, secs, smtDir)
		for _, pr := range problems {
			failClosed(prop+"/contract", pr)
		}
	}

	known := loadKnown()
	knownByObl := map[string]knownFinding{}
	for _, k := range known {
		if k.Kind == "known" && k.Property == prop {
			knownByObl[k.Obligation] = k
		}
	}
	baseline := loadBaseline(prop)

	type oblRec struct {
		Name    string  `json:"name"`
		Result  string  `json:"result"`
		Backend string  `json:"backend"`
		Secs    float64 `json:"secs"`
		Bytes   int     `json:"smt_bytes"`
	}
	var (
		nObl, nDis    int
		refutedKnown  []string
		undecided     []string
		byBackend     = map[string]map[string]float64{}
		solverSecs    float64
		funcsChecked  []string
		trusted       = map[string]string{}
		abstractions  = map[string][]string{}
		havocked      = map[string]bool{}
		marks         = map[string]int{}
		assumedPre    = map[string]string{}
		noImplicit    = map[string]int{}
		privateRegions = map[string]string{}
		inlined       = map[string]bool{}
		effFree       = map[string]bool{}
		axioms        = map[string]bool{}
		assumeCount   int
		loopsDecr     []string
		loopsNoDecr   []string
		samples       []map[string]interface{}
		allObls       []oblRec
		canaryTotal   int
		canaryRefuted int
		coversRun     int
		coversOK      int
		generated     = map[string]bool{}
		knownLines    []string
	)
	for _, r := range results {
		if r.enc == nil {
			continue
		}
		isCanary := hasProp(r.spec.Props, "CANARY")
		for _, m := range r.enc.errs {
			if isCanary {
				continue
			}
			failClosed(shortFunc(r.spec.Name)+"/encode", "function or contract outside the verifiable subset: "+m)
		}
		if !isCanary {
			funcsChecked = append(funcsChecked, shortFunc(r.spec.Name))
			for k, v := range r.enc.usedTrusted {
				trusted[k] = v
			}
			for k := range r.enc.abstractions {
				abstractions[shortFunc(r.spec.Name)] = append(abstractions[shortFunc(r.spec.Name)], k)
			}
			for k := range r.enc.usedHavoc {
				havocked[k] = true
			}
			for k, n := range r.enc.usedMarks {
				marks[k] = n
			}
			for k, v := range r.enc.assumedPre {
				assumedPre[shortFunc(r.spec.Name)+" -> "+k] = v
			}
			for k := range r.enc.usedInline {
				inlined[k] = true
			}
			for k := range r.enc.usedEffFree {
				effFree[k] = true
			}
			for _, a := range r.enc.axiomNames {
				axioms[a] = true
			}
			assumeCount += r.enc.assumes
			for k := range r.enc.usedPrivate {
				privateRegions[k] = p.specs.Private[k]
			}
			if r.enc.skippedImplicit > 0 {
				noImplicit[shortFunc(r.spec.Name)] = r.enc.skippedImplicit
			}
			loopsDecr = append(loopsDecr, r.enc.loopsDecr...)
			loopsNoDecr = append(loopsNoDecr, r.enc.loopsNoDecr...)
		}
		for _, o := range r.enc.obls {
			if isCanary {
				if o.Kind == "assert" {
					canaryTotal++
					if o.Result == "sat" {
						canaryRefuted++
					} else {
						failClosed(o.Name, "canary (a deliberately false lemma) was not refuted: result "+o.Result+" — the pipeline cannot be trusted")
					}
				}
				continue
			}
			if !hasProp(o.Props, prop) {
				continue
			}
			generated[o.Name] = true
			generated[stripInstance(o.Name)] = true
			if o.Cover {
				coversRun++
				if o.Result == "unsat" || (o.Result == "error" && !strings.HasSuffix(o.Name, "#axioms-consistent")) {
					failClosed(o.Name, "vacuity guard: "+o.Kind+" "+o.Name+" is unreachable/unsatisfiable ("+o.Result+")")
				} else {
					coversOK++
				}
				continue
			}
			nObl++
			solverSecs += o.Secs
			bk := byBackend[o.Backend]
			if bk == nil {
				bk = map[string]float64{}
				byBackend[o.Backend] = bk
			}
			bk["count"]++
			bk["seconds"] += o.Secs
			allObls = append(allObls, oblRec{o.Name, o.Result, o.Backend, o.Secs, o.QueryBytes})
			if len(samples) < 3 && o.Result == "unsat" {
				q := r.enc.buildQuery(o, false)
				ls := strings.Split(q, "\n")
				tail := ls
				if len(tail) > 6 {
					tail = tail[len(tail)-6:]
				}
				samples = append(samples, map[string]interface{}{"obligation": o.Name, "clause": o.src(), "at": fmt.Sprintf("%s:%d", shortFunc(o.Pos.Filename), o.Pos.Line), "smt_bytes": len(q), "smt_tail": tail, "backend": o.Backend})
			}
			if o.Result == "unsat" {
				nDis++
				if _, isKnown := knownByObl[o.Name]; isKnown {
					// stale known finding: now proved
				}
				continue
			}
			// not discharged
			if k, isKnown := knownByObl[o.Name]; isKnown {
				refutedKnown = append(refutedKnown, o.Name)
				knownLines = append(knownLines, fmt.Sprintf("KNOWN-FINDING: property=%s %s [obligation %s, witness %s]", prop, k.What, o.Name, k.Witness))
				continue
			}
			if o.Result == "sat" {
				rp := writeReplay(replayDir, prop, r, o)
				viols = append(viols, violation{Obligation: o.Name, Reason: "refuted: " + o.src(), Replay: rp.path, NoInput: !rp.failedOnReal})
				continue
			}
			// every obligation generated for a function under contract must discharge: an undecided one is reported
			// (it either discharged on the unchanged tree and no longer does, or it is a new obligation of changed code)
			rp := writeReplay(replayDir, prop, r, o)
			why := "not discharged (" + o.Result + "): " + o.src()
			if baseline != nil && !baseline[o.Name] {
				why = "new obligation of changed code, not discharged (" + o.Result + "): " + o.src()
			}
			viols = append(viols, violation{Obligation: o.Name, Reason: why, Replay: rp.path, NoInput: true})
			undecided = append(undecided, o.Name)
		}
	}
	// fail closed: explicit baseline obligations that were not generated
	if baseline != nil {
		var missing []string
		for name := range baseline {
			// instance suffixes (~N: the N-th return statement / call site the clause is checked at) are ignored, so a
			// refactoring that merges or splits return statements is not an alarm as long as the clause is still checked
			if !generated[name] && !generated[stripInstance(name)] && explicitKind(oblKindOf(name)) {
				missing = append(missing, name)
			}
		}
		sort.Strings(missing)
		for _, m := range missing {
			if _, isKnown := knownByObl[m]; isKnown {
				continue
			}
			failClosed(m, "contract obligation of the baseline was not generated (function or clause no longer applies)")
		}
	}
	if p != nil && canaryTotal == 0 {
		failClosed(prop+"/canary", "no canary lemma ran")
	}
	if nObl == 0 && len(viols) == 0 {
		failClosed(prop+"/vacuity", "no obligations generated")
	}

	// ---- report
	for _, l := range knownLines {
		fmt.Println(l)
	}
	exit := 0
	for i := range viols {
		v := &viols[i]
		if v.Replay == "" {
			v.Replay = writeNote(replayDir, prop, v.Obligation, v.Reason)
		}
		line := fmt.Sprintf("VIOLATION property=%s replay=%s", prop, v.Replay)
		if v.NoInput {
			line += " obligation=" + v.Obligation + " no-failing-input-found"
		} else {
			line += " obligation=" + v.Obligation
		}
		// the line must end with the words no-failing-input-found where no input replays
		if v.NoInput {
			line = fmt.Sprintf("VIOLATION property=%s replay=%s obligation=%s no-failing-input-found", prop, v.Replay, v.Obligation)
		}
		fmt.Println(line)
		fmt.Fprintf(os.Stderr, "  %s: %s\n", v.Obligation, v.Reason)
		exit = 1
	}

	level := "proof"
	explanation := ""
	if len(refutedKnown) > 0 || len(viols) > 0 {
		level = "other"
		explanation = fmt.Sprintf("%d of %d obligations discharged; %d refuted/undischarged obligations are listed known findings, %d are new violations: the property does not hold as stated on this tree", nDis, nObl, len(refutedKnown), len(viols))
	}
	sort.Strings(funcsChecked)
	cov := map[string]interface{}{
		"obligations":              nObl,
		"discharged":               nDis,
		"checker_cmd":              fmt.Sprintf("bin/govc check -prop %s -tier %s  (SSA of %s with -tags=verif -> SMT-LIB; z3 4.8.12 / z3 5.1.0 / cvc5 1.0.3 raced, %ds per obligation)", prop, *tier, *repoDir, secs),
		"trusted_base":             trustedBase(trusted),
		"refuted_known":            refutedKnown,
		"undecided_not_in_baseline": undecided,
		"by_backend":               byBackend,
		"solver_seconds":           solverSecs,
		"functions_under_contract": funcsChecked,
		"trusted_contracts":        trusted,
		"abstractions":             abstractions,
		"callees_havocked":         keysOf(havocked),
		"callees_inlined":          keysOf(inlined),
		"typestate_marks_assumed":  marks,
		"callee_preconditions_assumed": assumedPre,
		"functions_without_implicit_panic_obligations": noImplicit,
		"regions_assumed_private_to_their_direct_writers": privateRegions,
		"callees_effectfree":       keysOf(effFree),
		"axioms":                   keysOf(axioms),
		"assume_count":             assumeCount,
		"loops_with_decreases":     loopsDecr,
		"loops_without_decreases":  loopsNoDecr,
		"canary":                   map[string]int{"run": canaryTotal, "refuted": canaryRefuted},
		"vacuity":                  map[string]int{"covers_run": coversRun, "reachable": coversOK},
		"samples":                  samples,
		"obligation_list":          allObls,
		"integers":                 "mathematical Int with explicit two's-complement wrap-around per Go type (or an overflow obligation where the contract says `option nooverflow`)",
	}
	if explanation != "" {
		cov["explanation"] = explanation
	}
	if len(samples) == 0 {
		cov["samples"] = []map[string]interface{}{{"note": "no discharged obligation on this run"}}
	}
	ev := map[string]interface{}{
		"property_id": prop,
		"tier":        *tier,
		"seed":        seed,
		"level":       level,
		"coverage":    cov,
		"assumptions": globalAssumptions(trusted, abstractions),
		"wall_s":      time.Since(start).Seconds(),
		"violations":  len(viols),
	}
	b, _ := json.MarshalIndent(ev, "", " ")
	_ = os.WriteFile(evPath, b, 0o644)
	fmt.Fprintf(os.Stderr, "%s: %d/%d obligations discharged, %d known findings, %d violations, %.1fs\n", prop, nDis, nObl, len(refutedKnown), len(viols), time.Since(start).Seconds())
	return exit
}

func keysOf(m map[string]bool) []string {
	ks := make([]string, 0, len(m))
	for k := range m {
		ks = append(ks, k)
	}
	sort.Strings(ks)
	return ks
}

func trustedBase(trusted map[string]string) []string {
	tb := []string{
		"govc (this VC generator), go/types, go/ssa (x/tools v0.29.0)",
		"SMT solvers z3 4.8.12, z3 5.1.0, cvc5 1.0.3 (an `unsat` from any one is accepted)",
		"Go compiler implements the encoded semantics (wrap-around integers, bounds checks, append in place iff capacity suffices)",
	}
	for _, k := range sortedKeys(trusted) {
		tb = append(tb, "assumed contract: "+k+" — "+trusted[k])
	}
	return tb
}

func globalAssumptions(trusted map[string]string, abstractions map[string][]string) []string {
	as := []string{
		"sequential execution of each verified function: no other goroutine writes the state it reads",
		"typed memory: distinct Go types do not alias (unsafe casts are covered by trusted contracts only)",
		"no slice has more than 2^47 elements; allocation is a bump allocator (fresh blocks are disjoint from all earlier ones)",
		"nil-dereference of pointers received from callers/memory is not an obligation unless a contract states it",
		"floats are modelled as reals (no NaN/Inf) outside the functions that use the IEEE rounding model",
		"callees without a contract: results arbitrary, every region they could write (by effect inference over their bodies) arbitrary; logging/formatting callees are effect-free",
	}
	if len(abstractions) > 0 {
		as = append(as, "abstracted instruction classes (results arbitrary): "+fmt.Sprint(abstractions))
	}
	return as
}

type replayResult struct {
	path         string
	failedOnReal bool
}

func writeNote(dir, prop, obl, reason string) string {
	path := filepath.Join(dir, sanitizeFile(prop+"_"+obl)+".json")
	b, _ := json.MarshalIndent(map[string]interface{}{"property": prop, "obligation": obl, "reason": reason, "replayable": false}, "", " ")
	_ = os.WriteFile(path, b, 0o644)
	return path
}

// runPropWithCanaries runs the property's functions plus every CANARY lemma of the loaded packages.
func runPropWithCanaries(p *Prog, prop string, secs int, smtDir string) ([]*funcResult, []string) {
	res, problems := runProp(p, prop, secs, smtDir)
	can, _ := runProp(p, "CANARY", secs, smtDir)
	return append(res, can...), problems
}

// stripInstance removes the instance suffix (~N) of an obligation name.
func stripInstance(name string) string {
	if i := strings.LastIndex(name, "~"); i >= 0 {
		if _, err := strconv.Atoi(name[i+1:]); err == nil {
			return name[:i]
		}
	}
	return name
}
