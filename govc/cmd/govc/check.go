package main

func cmdCheck() int  { return 2 }
func cmdReplay() int { return 2 }
