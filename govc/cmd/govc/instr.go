package main

import (
	"fmt"
	"go/constant"
	"go/token"
	"go/types"
	"math/big"
	"os"
	"strings"

	"golang.org/x/tools/go/ssa"
)

func readFile(name string) ([]byte, error) { return os.ReadFile(name) }

func constBool(c *ssa.Const) bool { return constant.BoolVal(c.Value) }
func constBigInt(v constant.Value) (*big.Int, bool) {
	v = constant.ToInt(v)
	if v.Kind() != constant.Int {
		return big.NewInt(0), false
	}
	if i, ok := constant.Int64Val(v); ok {
		return big.NewInt(i), true
	}
	bi, ok := new(big.Int).SetString(v.ExactString(), 10)
	return bi, ok
}
func constBigRat(v constant.Value) *big.Rat {
	v = constant.ToFloat(v)
	switch x := constant.Val(v).(type) {
	case *big.Rat:
		return x
	case *big.Float:
		r, _ := x.Rat(nil)
		return r
	case int64:
		return new(big.Rat).SetInt64(x)
	case *big.Int:
		return new(big.Rat).SetInt(x)
	}
	f, _ := constant.Float64Val(v)
	r := new(big.Rat)
	r.SetFloat64(f)
	return r
}
func constString(v constant.Value) string { return constant.StringVal(v) }

func (fr *frame) opt(name string) bool {
	sp := fr.e.rootSpec
	return sp != nil && sp.Options[name] != ""
}

func (fr *frame) runBlock(b *ssa.BasicBlock, bc string, st *state) {
	e := fr.e
	for _, ins := range b.Instrs {
		if _, ok := ins.(*ssa.Phi); ok {
			continue
		}
		fr.instr(ins, bc, st)
	}
	// terminator
	if len(b.Instrs) == 0 {
		return
	}
	last := b.Instrs[len(b.Instrs)-1]
	var conds []string
	switch t := last.(type) {
	case *ssa.If:
		c := fr.val(t.Cond)
		conds = []string{and(bc, c), and(bc, not(c))}
	case *ssa.Jump:
		conds = []string{bc}
	default:
		return
	}
	es := make([]*edge, len(b.Succs))
	for j, s := range b.Succs {
		cond := e.define(fmt.Sprintf("edge.%s%d.%d", fr.prefix, b.Index, s.Index), "Bool", conds[j])
		if s.Dominates(b) {
			fr.backEdge(b, s, cond, st)
			continue
		}
		es[j] = &edge{cond: cond, st: st}
		fr.leaveEdge(b, s, cond, st)
	}
	fr.edges[b] = es
}

// leaveEdge checks the `leave` clauses of every loop that contains `from` but not `to` (a break, or the loop condition
// failing): names mean the values current at the edge; loop variables not reassigned on the way mean their header value.
func (fr *frame) leaveEdge(from, to *ssa.BasicBlock, cond string, st *state) {
	e := fr.e
	for hdr, li := range fr.loops {
		if li == nil || li.spec == nil || len(li.spec.Leaves) == 0 {
			continue
		}
		if !(hdr == from || li.body[from]) || hdr == to || li.body[to] {
			continue
		}
		if n := len(to.Instrs); n > 0 {
			switch to.Instrs[n-1].(type) {
			case *ssa.Return, *ssa.Panic:
				continue // leaving the function, not the loop: exit clauses speak there
			}
		}
		env := fr.loopEnv(li, func(phi *ssa.Phi) string { return fr.vals[phi] }, st)
		hdrLookup := env.lookup
		env.lookup = func(name string) (binding, bool) {
			if b, ok := fr.lookupLocal(name, from, st); ok {
				return b, true
			}
			return hdrLookup(name)
		}
		for _, c := range li.spec.Leaves {
			t, err := env.boolExpr(c.Text)
			if err != nil {
				e.errf("%s:%d: %v", c.File, c.Line, err)
				continue
			}
			o := fr.oblige("leave", c.Label, cond, t, from.Instrs[len(from.Instrs)-1].Pos(), clauseProps(c, e))
			o.Src = c.Text
		}
	}
}

func (fr *frame) backEdge(from, hdr *ssa.BasicBlock, cond string, st *state) {
	e := fr.e
	li := fr.loops[hdr]
	if li == nil || li.spec == nil {
		return
	}
	// which pred index is `from`?
	idx := -1
	for i, p := range hdr.Preds {
		if p == from {
			idx = i
		}
	}
	env := fr.loopEnv(li, func(phi *ssa.Phi) string { return fr.val(phi.Edges[idx]) }, st)
	// at a back edge, locals defined in the loop body are visible too (used by step clauses)
	hdrLookup := env.lookup
	env.lookup = func(name string) (binding, bool) {
		if b, ok := hdrLookup(name); ok {
			return b, true
		}
		return fr.lookupLocal(name, from, st)
	}
	env.prevOf = func(name string) (binding, bool) {
		for _, instr := range hdr.Instrs {
			phi, ok := instr.(*ssa.Phi)
			if !ok {
				break
			}
			if phi.Comment == name {
				return binding{term: fr.vals[phi], typ: phi.Type()}, true
			}
		}
		return binding{}, false
	}
	for _, c := range li.spec.Steps {
		t, err := env.boolExpr(c.Text)
		if err != nil {
			if strings.Contains(err.Error(), "\"ret_") {
				continue // the call named by ret_<callee> does not lie on the way to this back edge: the clause says nothing here
			}
			e.errf("%s:%d: %v", c.File, c.Line, err)
			continue
		}
		o := fr.oblige("step", c.Label, cond, t, from.Instrs[len(from.Instrs)-1].Pos(), clauseProps(c, e))
		o.Src = c.Text
		e.assume(implies(cond, t))
	}
	for _, c := range li.spec.Invariants {
		t, err := env.boolExpr(c.Text)
		if err != nil {
			e.errf("%s:%d: %v", c.File, c.Line, err)
			continue
		}
		o := fr.oblige("inv-preserved", c.Label, cond, t, from.Instrs[len(from.Instrs)-1].Pos(), clauseProps(c, e))
		o.Src = c.Text
		e.assume(implies(cond, t)) // cumulative
	}
	if li.spec.Decreases != nil && li.measure != "" {
		t, _, err := env.expr(li.spec.Decreases.Text)
		if err == nil {
			o := fr.oblige("decreases", li.spec.Decreases.Label, cond, and(app("<=", "0", li.measure), app("<", t, li.measure)), hdr.Instrs[0].Pos(), clauseProps(li.spec.Decreases, e))
			o.Src = li.spec.Decreases.Text
		}
	}
}

func isFloat(t types.Type) bool {
	b, ok := t.Underlying().(*types.Basic)
	return ok && b.Info()&types.IsFloat != 0
}
func isInt(t types.Type) bool {
	b, ok := t.Underlying().(*types.Basic)
	return ok && b.Info()&types.IsInteger != 0
}
func isString(t types.Type) bool {
	b, ok := t.Underlying().(*types.Basic)
	return ok && b.Info()&types.IsString != 0
}
func isUnsigned(t types.Type) bool {
	b, ok := t.Underlying().(*types.Basic)
	return ok && b.Info()&types.IsUnsigned != 0
}

func (fr *frame) setVal(v ssa.Value, term string) {
	// name every value for compact queries and model read-back
	fr.vals[v] = fr.e.define(fr.prefix+v.Name(), fr.e.st.sortOf(v.Type()), term)
}

func (fr *frame) havocVal(v ssa.Value, st *state) {
	t := fr.e.fresh(fr.prefix+v.Name(), fr.e.st.sortOf(v.Type()))
	fr.vals[v] = t
	fr.wellFormed(v.Type(), t, st)
}

func (fr *frame) abstractOK(class string) bool {
	sp := fr.e.rootSpec
	if sp == nil {
		return false
	}
	if v, ok := sp.Options["abstract"]; ok {
		for _, c := range strings.Fields(strings.ReplaceAll(v, ",", " ")) {
			if c == class || c == "all" {
				fr.e.abstractions[class] = true
				return true
			}
		}
	}
	return false
}

func (fr *frame) instr(ins ssa.Instruction, bc string, st *state) {
	e := fr.e
	switch i := ins.(type) {
	case *ssa.DebugRef:
	case *ssa.Alloc:
		elem := i.Type().Underlying().(*types.Pointer).Elem()
		if arr, ok := elem.Underlying().(*types.Array); ok {
			base := e.alloc(st, intLit64(arr.Len()))
			r := e.memRegion(arr.Elem())
			e.zeroFill(st, r, base, intLit64(arr.Len()), arr.Elem())
			fr.vals[i] = base
			fr.ptrs[i] = &ptrInfo{region: r, addr: base, cell: arr.Elem(), arrLen: arr.Len(), flat: true}
			return
		}
		if i.Heap {
			base := e.alloc(st, "1")
			r := e.memRegion(elem)
			e.set(st, r, app("store", e.get(st, r), base, e.st.zero(elem)))
			fr.vals[i] = base
			fr.ptrs[i] = &ptrInfo{region: r, addr: base, cell: elem}
			return
		}
		r := fr.locRegion(i)
		st.regs[r] = e.st.zero(elem)
		fr.vals[i] = "0"
		fr.ptrs[i] = &ptrInfo{region: r, cell: elem}
	case *ssa.FieldAddr:
		p := fr.ptr(i.X)
		stT := i.X.Type().Underlying().(*types.Pointer).Elem()
		np := &ptrInfo{region: p.region, addr: p.addr, cell: p.cell}
		np.path = append(append([]pathStep{}, p.path...), pathStep{field: i.Field, cont: stT})
		fr.ptrs[i] = np
		fr.vals[i] = "0"
		if ft, ok := stT.Underlying().(*types.Struct).Field(i.Field).Type().Underlying().(*types.Array); ok {
			np.arrLen = -ft.Len() // negative: array value nested in a struct (not flattened)
		}
	case *ssa.IndexAddr:
		idx := fr.val(i.Index)
		switch xt := i.X.Type().Underlying().(type) {
		case *types.Slice:
			s := fr.val(i.X)
			o := fr.oblige("bounds", "index:"+fr.srcText(i.Pos()), bc, and(app("<=", "0", idx), app("<", idx, app("s.len", s))), i.Pos(), nil)
			o.Src = fr.srcText(i.Pos())
			fr.ptrs[i] = &ptrInfo{region: e.memRegion(xt.Elem()), addr: app("ea", app("s.base", s), idx), cell: xt.Elem()}
			fr.vals[i] = app("ea", app("s.base", s), idx)
		case *types.Pointer:
			arr := xt.Elem().Underlying().(*types.Array)
			p := fr.ptr(i.X)
			o := fr.oblige("bounds", "index:"+fr.srcText(i.Pos()), bc, and(app("<=", "0", idx), app("<", idx, intLit64(arr.Len()))), i.Pos(), nil)
			o.Src = fr.srcText(i.Pos())
			if p.flat { // flattened
				fr.ptrs[i] = &ptrInfo{region: p.region, addr: app("ea", p.addr, idx), cell: arr.Elem()}
				fr.vals[i] = app("ea", p.addr, idx)
			} else {
				np := &ptrInfo{region: p.region, addr: p.addr, cell: p.cell}
				np.path = append(append([]pathStep{}, p.path...), pathStep{field: -1, index: idx, cont: xt.Elem()})
				if inner, ok := arr.Elem().Underlying().(*types.Array); ok {
					np.arrLen = -inner.Len()
				}
				fr.ptrs[i] = np
				fr.vals[i] = "0"
			}
		}
	case *ssa.UnOp:
		fr.unop(i, bc, st)
	case *ssa.BinOp:
		fr.binop(i, bc, st)
	case *ssa.Store:
		p := fr.ptr(i.Addr)
		v := fr.val(i.Val)
		if p.flat {
			// storing a whole array value into flattened memory
			fr.storeArray(st, p, v, i.Val.Type())
			return
		}
		if _, isPtr := i.Val.Type().Underlying().(*types.Pointer); isPtr {
			if vp, ok := fr.ptrs[i.Val]; ok && !strings.HasPrefix(vp.region, "mem:") {
				if strings.HasPrefix(vp.region, "loc:") {
					fr.escaped[vp.region] = true
				}
			}
		}
		e.store(st, p, v)
	case *ssa.Convert:
		fr.convert(i, bc, st)
	case *ssa.ChangeType:
		fr.changeType(i)
	case *ssa.ChangeInterface:
		fr.vals[i] = fr.val(i.X)
	case *ssa.MakeInterface:
		so := e.st.sortOf(i.X.Type())
		x := fr.val(i.X)
		bx, ub := e.st.boxFns(so)
		id := e.st.typeID(i.X.Type())
		fr.setVal(i, app("mk-iface", intLit64(int64(id)), app(bx, x)))
		e.ifaceType[fr.vals[i]] = id // statically known dynamic type: lets contract clauses on other kinds be dropped
		e.assume(eq(app(ub, app(bx, x)), x))
	case *ssa.TypeAssert:
		fr.typeAssert(i, bc, st)
	case *ssa.Extract:
		fr.extract(i)
	case *ssa.Slice:
		fr.slice(i, bc, st)
	case *ssa.MakeSlice:
		ln, cp := fr.val(i.Len), fr.val(i.Cap)
		elem := i.Type().Underlying().(*types.Slice).Elem()
		o := fr.oblige("makeslice", "len:"+fr.srcText(i.Pos()), bc, and(app("<=", "0", ln), app("<=", ln, cp), app("<=", cp, maxAllocTerm(fr))), i.Pos(), nil)
		o.Src = fr.srcText(i.Pos())
		base := e.alloc(st, cp)
		r := e.memRegion(elem)
		e.zeroFill(st, r, base, cp, elem)
		fr.setVal(i, app("mk-slice", base, ln, cp))
	case *ssa.MakeMap:
		mt := i.Type().Underlying().(*types.Map)
		dom, _, ln := e.mapRegions(mt)
		h := e.alloc(st, "1")
		ks := e.st.sortOf(mt.Key())
		e.set(st, dom, app("store", e.get(st, dom), h, fmt.Sprintf("((as const (Array %s Bool)) false)", ks)))
		e.set(st, ln, app("store", e.get(st, ln), h, "0"))
		fr.setVal(i, h)
	case *ssa.MakeChan:
		if !fr.abstractOK("channel") {
			e.errf("%s: make(chan) outside subset (add `option abstract channel`)", fr.fn.Name())
		}
		fr.havocVal(i, st)
	case *ssa.MakeClosure:
		fr.havocVal(i, st)
		for _, b := range i.Bindings {
			if p, ok := fr.ptrs[b]; ok && strings.HasPrefix(p.region, "loc:") {
				fr.escaped[p.region] = true
			}
		}
	case *ssa.Lookup:
		fr.lookup(i, bc, st)
	case *ssa.MapUpdate:
		mt := i.Map.Type().Underlying().(*types.Map)
		dom, val, ln := e.mapRegions(mt)
		m, k, v := fr.val(i.Map), fr.val(i.Key), fr.val(i.Value)
		fr.oblige("nilmap", "update:"+fr.srcText(i.Pos()), bc, not(eq(m, "0")), i.Pos(), nil)
		d := app("select", e.get(st, dom), m)
		e.set(st, ln, app("store", e.get(st, ln), m, app("+", app("select", e.get(st, ln), m), ite(app("select", d, k), "0", "1"))))
		e.set(st, dom, app("store", e.get(st, dom), m, app("store", d, k, "true")))
		e.set(st, val, app("store", e.get(st, val), m, app("store", app("select", e.get(st, val), m), k, v)))
	case *ssa.Range:
		if _, ok := i.X.Type().Underlying().(*types.Map); !ok {
			if !fr.abstractOK("rangestring") {
				e.errf("%s: range over string outside subset", fr.fn.Name())
			}
			fr.vals[i] = "0"
			return
		}
		fr.vals[i] = fr.val(i.X)
		r := fr.iterRegion(i)
		ks := e.st.sortOf(i.X.Type().Underlying().(*types.Map).Key())
		st.regs[r] = fmt.Sprintf("((as const (Array %s Bool)) false)", ks)
	case *ssa.Next:
		fr.next(i, bc, st)
	case *ssa.Call:
		fr.call(i, &i.Call, bc, st, i.Pos())
	case *ssa.Defer:
		fr.defers = append(fr.defers, i)
	case *ssa.RunDefers:
		for k := len(fr.defers) - 1; k >= 0; k-- {
			d := fr.defers[k]
			eff := e.p.callEffects(&d.Call, map[*ssa.Function]bool{})
			if mc, ok := d.Call.Value.(*ssa.MakeClosure); ok {
				_ = mc
			}
			fr.havocKeepingLocalMaps(st, eff, fr.escaped, nil)
		}
	case *ssa.Go:
		if !fr.abstractOK("go") {
			e.errf("%s: go statement outside subset (add `option abstract go`)", fr.fn.Name())
		}
	case *ssa.Send:
		if !fr.abstractOK("channel") {
			e.errf("%s: channel send outside subset", fr.fn.Name())
		}
	case *ssa.Select:
		if !fr.abstractOK("channel") {
			e.errf("%s: select outside subset", fr.fn.Name())
		}
		// result tuple (index, recvOk, r_0...): all havoc
		fr.vals[i] = "select"
	case *ssa.Return:
		fr.ret(i, bc, st)
	case *ssa.Panic:
		if fr.isRoot && !fr.opt("maypanic") {
			fr.oblige("panic", "explicit:"+fr.srcText(i.Pos()), bc, "false", i.Pos(), nil)
		} else if !fr.isRoot {
			fr.oblige("panic", "explicit:"+fr.srcText(i.Pos()), bc, "false", i.Pos(), nil)
		}
	case *ssa.If, *ssa.Jump:
	case *ssa.Index:
		if isString(i.X.Type()) {
			sx, idx := fr.val(i.X), fr.val(i.Index)
			fr.oblige("bounds", "index:"+fr.srcText(i.Pos()), bc, and(app("<=", "0", idx), app("<", idx, app("gstr.len", sx))), i.Pos(), nil)
			fr.setVal(i, app("gstr.at", sx, idx))
			e.assume(and(app("<=", "0", fr.vals[i]), app("<=", fr.vals[i], "255")))
			return
		}
		// index of array value
		arr := i.X.Type().Underlying().(*types.Array)
		idx := fr.val(i.Index)
		fr.oblige("bounds", "index:"+fr.srcText(i.Pos()), bc, and(app("<=", "0", idx), app("<", idx, intLit64(arr.Len()))), i.Pos(), nil)
		fr.setVal(i, app("select", fr.val(i.X), idx))
	case *ssa.Field:
		si := e.st.structOf(i.X.Type())
		fr.setVal(i, app(si.fields[i.Field], fr.val(i.X)))
	case *ssa.SliceToArrayPointer:
		e.errf("%s: slice-to-array-pointer outside subset", fr.fn.Name())
	default:
		if v, ok := ins.(ssa.Value); ok {
			if fr.abstractOK("other") {
				fr.havocVal(v, st)
				return
			}
		}
		e.errf("%s: unsupported instruction %T: %s", fr.fn.Name(), ins, ins.String())
	}
}

func maxAllocTerm(fr *frame) string {
	if sp := fr.e.rootSpec; sp != nil {
		if v, ok := sp.Options["maxalloc"]; ok {
			return v
		}
	}
	return maxSliceCap
}

// zeroFill sets n cells from base to the zero value (quantified frame for the rest).
func (e *Enc) zeroFill(st *state, region, base, n string, elem types.Type) {
	old := e.get(st, region)
	nw := e.fresh("Z."+region, e.regionSort[region])
	z := e.st.zero(elem)
	e.assume(fmt.Sprintf("(forall ((zi Int)) (! (= (select %s zi) (ite (and (<= %s zi) (< zi (+ %s %s))) %s (select %s zi))) :pattern ((select %s zi))))", nw, base, base, n, z, old, nw))
	st.regs[region] = nw
}

func (fr *frame) storeArray(st *state, p *ptrInfo, v string, t types.Type) {
	e := fr.e
	arr := t.Underlying().(*types.Array)
	old := e.get(st, p.region)
	nw := e.fresh("A."+p.region, e.regionSort[p.region])
	e.assume(fmt.Sprintf("(forall ((zi Int)) (! (= (select %s zi) (ite (and (<= %s zi) (< zi (+ %s %d))) (select %s (- zi %s)) (select %s zi))) :pattern ((select %s zi))))", nw, p.addr, p.addr, arr.Len(), v, p.addr, old, nw))
	st.regs[p.region] = nw
}

func (fr *frame) loadArray(st *state, p *ptrInfo, t types.Type) string {
	e := fr.e
	arr := t.Underlying().(*types.Array)
	so := e.st.sortOf(t)
	nw := e.fresh("arrval", so)
	m := e.get(st, p.region)
	e.assume(fmt.Sprintf("(forall ((zi Int)) (! (=> (and (<= 0 zi) (< zi %d)) (= (select %s zi) (select %s (+ %s zi)))) :pattern ((select %s zi))))", arr.Len(), nw, m, p.addr, nw))
	return nw
}

func (fr *frame) unop(i *ssa.UnOp, bc string, st *state) {
	e := fr.e
	switch i.Op {
	case token.MUL: // load
		p := fr.ptr(i.X)
		if _, known := fr.ptrs[i.X]; !known {
			// pointer value from outside: nil dereference is an obligation only when asked
			if fr.opt("nilcheck") {
				fr.oblige("nil", "deref:"+fr.srcText(i.Pos()), bc, not(eq(fr.val(i.X), "0")), i.Pos(), nil)
			}
		}
		if p.flat {
			fr.vals[i] = fr.loadArray(st, p, i.Type())
			return
		}
		t := e.load(st, p)
		fr.setVal(i, t)
		e.assume(e.st.rangeAssume(i.Type(), fr.vals[i], 0))
		fr.wellFormed(i.Type(), fr.vals[i], st)
	case token.NOT:
		fr.setVal(i, not(fr.val(i.X)))
	case token.SUB:
		if isFloat(i.Type()) {
			fr.setVal(i, app("-", fr.val(i.X)))
		} else {
			fr.setVal(i, wrapTo(i.Type(), app("-", fr.val(i.X))))
		}
	case token.XOR:
		// ^x = -x-1 (signed) or max-x (unsigned)
		if isUnsigned(i.Type()) {
			_, hi, _ := intRange(i.Type())
			fr.setVal(i, app("-", intLit(hi), fr.val(i.X)))
		} else {
			fr.setVal(i, app("-", app("-", fr.val(i.X)), "1"))
		}
	case token.ARROW:
		if !fr.abstractOK("channel") {
			e.errf("%s: channel receive outside subset", fr.fn.Name())
		}
		if r, ok := e.ghostRegion("recvCount"); ok {
			// the abstraction keeps one fact about channels: a receive happened
			e.set(st, r, app("+", e.get(st, r), "1"))
		}
		if i.CommaOk {
			fr.vals[i] = "recv"
		} else {
			fr.havocVal(i, st)
		}
	default:
		e.errf("%s: unsupported unop %s", fr.fn.Name(), i.Op)
	}
}

func (fr *frame) binop(i *ssa.BinOp, bc string, st *state) {
	e := fr.e
	x, y := fr.val(i.X), fr.val(i.Y)
	xt := i.X.Type()
	switch i.Op {
	case token.EQL, token.NEQ:
		var t string
		switch u := xt.Underlying().(type) {
		case *types.Slice:
			// only comparison with nil is legal
			if isNilConst(i.Y) {
				t = eq(app("s.base", x), "0")
			} else {
				t = eq(app("s.base", y), "0")
			}
		case *types.Interface:
			if isNilConst(i.Y) {
				t = eq(app("i.typ", x), "0")
			} else if isNilConst(i.X) {
				t = eq(app("i.typ", y), "0")
			} else {
				t = eq(x, y)
			}
		case *types.Basic:
			if u.Info()&types.IsString != 0 {
				t = e.strEq(x, y)
			} else {
				t = eq(x, y)
			}
		default:
			t = eq(x, y)
		}
		if i.Op == token.NEQ {
			t = not(t)
		}
		fr.setVal(i, t)
		return
	case token.LSS, token.LEQ, token.GTR, token.GEQ:
		if isString(xt) {
			e.errf("%s: string ordering outside subset", fr.fn.Name())
			fr.havocVal(i, st)
			return
		}
		op := map[token.Token]string{token.LSS: "<", token.LEQ: "<=", token.GTR: ">", token.GEQ: ">="}[i.Op]
		fr.setVal(i, app(op, x, y))
		return
	case token.LAND, token.LOR:
	}
	t := i.Type()
	if isString(t) && i.Op == token.ADD {
		r := e.fresh("cat", "Str")
		e.declareStrCat()
		e.assume(eq(r, app("gstr.cat", x, y)))
		e.assume(eq(app("gstr.len", r), app("+", app("gstr.len", x), app("gstr.len", y))))
		fr.vals[i] = r
		return
	}
	if isFloat(t) {
		fr.floatBinop(i, x, y, bc)
		return
	}
	if b, ok := t.Underlying().(*types.Basic); ok && b.Info()&types.IsBoolean != 0 {
		switch i.Op {
		case token.AND:
			fr.setVal(i, and(x, y))
		case token.OR:
			fr.setVal(i, or(x, y))
		default:
			e.errf("%s: bool op %s", fr.fn.Name(), i.Op)
		}
		return
	}
	var exact string
	noWrap := false
	switch i.Op {
	case token.ADD:
		exact = app("+", x, y)
	case token.SUB:
		exact = app("-", x, y)
	case token.MUL:
		exact = app("*", x, y)
		_, c1 := i.X.(*ssa.Const)
		_, c2 := i.Y.(*ssa.Const)
		if !c1 && !c2 {
			e.product(x, y)
		}
	case token.QUO:
		fr.oblige("divzero", "div:"+fr.srcText(i.Pos()), bc, not(eq(y, "0")), i.Pos(), nil)
		if isUnsigned(t) {
			exact = app("div", x, y)
			noWrap = true
		} else if _, isConst := i.Y.(*ssa.Const); isConst {
			exact = app("tdiv", x, y)
		} else {
			// variable divisor: an uninterpreted quotient plus its Euclidean property (non-linear `div` makes the solvers
			// diverge; equal operands still give equal quotients by congruence, in code and in clauses alike)
			exact = app("tdivv", x, y)
		}
		if _, isConst := i.Y.(*ssa.Const); !isConst {
			// help the non-linear engines: Euclidean property of the quotient for non-negative operands
			q := e.define("quo", "Int", exact)
			e.product(q, y)
			e.assume(implies(and(app(">=", x, "0"), app(">", y, "0")), and(app("<=", app("*", q, y), x), app("<", x, app("+", app("*", q, y), y)), app("<=", "0", q), app("<=", q, x))))
			exact = q
		}
	case token.REM:
		fr.oblige("divzero", "rem:"+fr.srcText(i.Pos()), bc, not(eq(y, "0")), i.Pos(), nil)
		if isUnsigned(t) {
			exact = app("mod", x, y)
		} else {
			exact = app("tmod", x, y)
		}
		noWrap = true
	case token.SHL:
		if c, ok := i.Y.(*ssa.Const); ok {
			n, _ := constBigInt(c.Value)
			exact = app("*", x, pow2(uint(n.Int64())).String())
		}
	case token.SHR:
		if c, ok := i.Y.(*ssa.Const); ok {
			n, _ := constBigInt(c.Value)
			exact = app("div", x, pow2(uint(n.Int64())).String())
			noWrap = true
		}
	case token.AND:
		if c, ok := i.Y.(*ssa.Const); ok && isUnsigned(t) {
			n, _ := constBigInt(c.Value)
			n1 := new(big.Int).Add(n, big.NewInt(1))
			if n1.BitLen() > 0 && new(big.Int).And(n1, n).Sign() == 0 {
				exact = app("mod", x, n1.String())
				noWrap = true
			}
		}
	}
	if exact == "" {
		// uninterpreted bit operation
		f := e.bitFn(i.Op.String())
		fr.vals[i] = e.fresh(fr.prefix+i.Name(), "Int")
		e.assume(eq(fr.vals[i], app(f, x, y)))
		e.assume(e.st.rangeAssume(t, fr.vals[i], 0))
		return
	}
	if noWrap {
		fr.setVal(i, exact)
		return
	}
	if fr.opt("nooverflow") {
		lo, hi, _ := intRange(t)
		o := fr.oblige("overflow", i.Op.String()+":"+fr.srcText(i.Pos()), bc, and(app("<=", intLit(lo), exact), app("<=", exact, intLit(hi))), i.Pos(), nil)
		o.Src = fr.srcText(i.Pos())
		fr.setVal(i, exact)
		e.assume(implies(bc, e.st.rangeAssume(t, fr.vals[i], 0)))
		return
	}
	fr.setVal(i, wrapTo(t, exact))
}

func isNilConst(v ssa.Value) bool {
	c, ok := v.(*ssa.Const)
	return ok && c.Value == nil
}

func (e *Enc) bitFn(op string) string {
	name := map[string]string{"&": "bit.and", "|": "bit.or", "^": "bit.xor", "&^": "bit.andnot", "<<": "bit.shl", ">>": "bit.shr"}[op]
	if name == "" {
		name = "bit.other"
	}
	d := fmt.Sprintf("(declare-fun %s (Int Int) Int)", name)
	for _, x := range e.st.extraDecls {
		if x == d {
			return name
		}
	}
	e.st.extraDecls = append(e.st.extraDecls, d)
	return name
}

func (e *Enc) declareStrCat() {
	d := "(declare-fun gstr.cat (Str Str) Str)"
	for _, x := range e.st.extraDecls {
		if x == d {
			return
		}
	}
	e.st.extraDecls = append(e.st.extraDecls, d)
}

// strEq: equality on the uninterpreted Str sort (extensionality is an axiom in the prelude when enabled).
func (e *Enc) strEq(x, y string) string {
	if x == y {
		return "true"
	}
	return app("gstr.eq", x, y)
}

// litRat parses a numeric literal term (integer, decimal, (/ a b), (- x)) into a rational.
func litRat(t string) (*big.Rat, bool) {
	t = strings.TrimSpace(t)
	if strings.HasPrefix(t, "(- ") && strings.HasSuffix(t, ")") {
		r, ok := litRat(t[3 : len(t)-1])
		if !ok {
			return nil, false
		}
		return new(big.Rat).Neg(r), true
	}
	if strings.HasPrefix(t, "(/ ") && strings.HasSuffix(t, ")") {
		fs := strings.Fields(t[3 : len(t)-1])
		if len(fs) != 2 {
			return nil, false
		}
		a, ok1 := litRat(fs[0])
		b, ok2 := litRat(fs[1])
		if !ok1 || !ok2 || b.Sign() == 0 {
			return nil, false
		}
		return new(big.Rat).Quo(a, b), true
	}
	if strings.ContainsAny(t, " ()") || t == "" {
		return nil, false
	}
	t = strings.TrimSuffix(t, ".0")
	r, ok := new(big.Rat).SetString(t)
	return r, ok
}

// roundToFloat64 rounds an exact rational to the nearest binary64 value (ties to even), as the hardware does.
func roundToFloat64(r *big.Rat) *big.Rat {
	f := new(big.Float).SetPrec(53).SetMode(big.ToNearestEven).SetRat(r)
	out, _ := f.Rat(nil)
	return out
}

func (fr *frame) floatBinop(i *ssa.BinOp, x, y, bc string) {
	e := fr.e
	if fr.opt("floatmodel") {
		// both operands known: compute the IEEE result exactly instead of bounding it
		if a, ok1 := litRat(e.canon(x)); ok1 {
			if b, ok2 := litRat(e.canon(y)); ok2 {
				var r *big.Rat
				switch i.Op {
				case token.ADD:
					r = new(big.Rat).Add(a, b)
				case token.SUB:
					r = new(big.Rat).Sub(a, b)
				case token.MUL:
					r = new(big.Rat).Mul(a, b)
				case token.QUO:
					if b.Sign() != 0 {
						r = new(big.Rat).Quo(a, b)
					}
				}
				if r != nil {
					fr.vals[i] = ratLit(roundToFloat64(r))
					return
				}
			}
		}
	}
	var exact string
	switch i.Op {
	case token.ADD:
		exact = app("+", x, y)
	case token.SUB:
		exact = app("-", x, y)
	case token.MUL:
		exact = app("*", x, y)
	case token.QUO:
		exact = app("/", x, y)
	default:
		e.errf("%s: float op %s", fr.fn.Name(), i.Op)
		exact = x
	}
	if !fr.opt("floatmodel") {
		fr.setVal(i, exact)
		return
	}
	// IEEE-754 binary64 round-to-nearest model: |r-exact| <= 2^-53 |exact|, exact when the exact result is an
	// integer of magnitude <= 2^53.
	ex := e.define("fexact", "Real", exact)
	r := e.fresh(fr.prefix+i.Name(), "Real")
	e.assume(app("<=", app("rabs", app("-", r, ex)), app("*", "(/ 1.0 9007199254740992.0)", app("rabs", ex))))
	// exactness: sums, differences and products of integer-valued doubles are exact while below 2^53
	isIntVal := func(t string) bool {
		t = e.canon(t)
		if e.intValued[t] {
			return true
		}
		r, ok := litRat(t)
		return ok && r.IsInt()
	}
	if i.Op == token.QUO && isIntVal(x) && isIntVal(y) {
		// a quotient of integer-valued doubles that is itself an integer is exact (correct rounding)
		e.assume(implies(and(app("is_int", ex), app("<=", app("rabs", ex), "9007199254740992.0")), eq(r, ex)))
	}
	if i.Op != token.QUO && isIntVal(x) && isIntVal(y) {
		inRange := app("<=", app("rabs", ex), "9007199254740992.0")
		e.assume(implies(inRange, eq(r, ex)))
		e.intValued[r] = true // (when in range; out of range values are not used as integers by the contracts)
		// integer shadow: r == to_real(k) with k computed in integer arithmetic
		sx, cx, okx := e.shadowOf(x)
		sy, cy, oky := e.shadowOf(y)
		if okx && oky {
			op := map[token.Token]string{token.ADD: "+", token.SUB: "-", token.MUL: "*"}[i.Op]
			k := e.define("ishadow", "Int", app(op, sx, sy))
			cond := and(cx, cy, inRange)
			e.assume(implies(cond, eq(r, app("to_real", k))))
			e.shadow[r] = [2]string{k, cond}
		}
	}
	e.floatOps = append(e.floatOps, floatOp{op: i.Op.String(), exact: ex, res: r})
	fr.vals[i] = r
}

func (fr *frame) convert(i *ssa.Convert, bc string, st *state) {
	e := fr.e
	from, to := i.X.Type(), i.Type()
	x := fr.val(i.X)
	switch {
	case isInt(from) && isInt(to):
		flo, fhi, _ := intRange(from)
		tlo, thi, _ := intRange(to)
		if flo.Cmp(tlo) >= 0 && fhi.Cmp(thi) <= 0 {
			fr.setVal(i, x)
		} else {
			fr.setVal(i, wrapTo(to, x))
		}
	case isInt(from) && isFloat(to):
		if r, ok := litRat(e.canon(x)); ok && fr.opt("floatmodel") {
			fr.vals[i] = ratLit(roundToFloat64(r))
			return
		}
		if fr.opt("floatmodel") {
			r := e.fresh(fr.prefix+i.Name(), "Real")
			e.intValued[r] = true
			ex := app("to_real", x)
			e.assume(app("<=", app("rabs", app("-", r, ex)), app("*", "(/ 1.0 9007199254740992.0)", app("rabs", ex))))
			e.assume(implies(app("<=", app("rabs", ex), "9007199254740992.0"), eq(r, ex)))
			fr.vals[i] = r
		} else {
			fr.setVal(i, app("to_real", x))
		}
	case isFloat(from) && isInt(to):
		tr := app("rtrunc", x)
		if k, c, ok := e.shadowOf(x); ok {
			e.assume(implies(c, eq(tr, k)))
		}
		if fr.opt("floatconv-check") {
			lo, hi, _ := intRange(to)
			o := fr.oblige("floatconv", "range:"+fr.srcText(i.Pos()), bc, and(app("<=", intLit(lo), tr), app("<=", tr, intLit(hi))), i.Pos(), nil)
			o.Src = fr.srcText(i.Pos())
			fr.setVal(i, tr)
		} else {
			fr.setVal(i, wrapTo(to, tr))
		}
	case isFloat(from) && isFloat(to):
		fr.setVal(i, x)
	case isString(to):
		// string(bytes) or string(rune)
		if sl, ok := from.Underlying().(*types.Slice); ok {
			r := e.fresh(fr.prefix+i.Name(), "Str")
			m := e.get(st, e.memRegion(sl.Elem()))
			e.assume(eq(app("gstr.len", r), app("s.len", x)))
			e.assume(fmt.Sprintf("(forall ((zi Int)) (! (=> (and (<= 0 zi) (< zi (s.len %s))) (= (gstr.at %s zi) (select %s (+ (s.base %s) zi)))) :pattern ((gstr.at %s zi))))", x, r, m, x, r))
			fr.vals[i] = r
		} else {
			fr.havocVal(i, st)
		}
	case isString(from):
		if sl, ok := to.Underlying().(*types.Slice); ok {
			n := app("gstr.len", x)
			base := e.alloc(st, n)
			r := e.memRegion(sl.Elem())
			old := e.get(st, r)
			nw := e.fresh("B."+r, e.regionSort[r])
			e.assume(fmt.Sprintf("(forall ((zi Int)) (! (= (select %s zi) (ite (and (<= %s zi) (< zi (+ %s %s))) (gstr.at %s (- zi %s)) (select %s zi))) :pattern ((select %s zi))))", nw, base, base, n, x, base, old, nw))
			st.regs[r] = nw
			fr.setVal(i, app("mk-slice", base, n, n))
		} else {
			fr.havocVal(i, st)
		}
	default:
		if fr.abstractOK("unsafe") {
			fr.havocVal(i, st)
			return
		}
		e.errf("%s: unsupported conversion %s → %s", fr.fn.Name(), from, to)
		fr.havocVal(i, st)
	}
}

func (fr *frame) changeType(i *ssa.ChangeType) {
	e := fr.e
	from, to := i.X.Type(), i.Type()
	x := fr.val(i.X)
	if e.st.sortOf(from) == e.st.sortOf(to) {
		fr.vals[i] = x
		if p, ok := fr.ptrs[i.X]; ok {
			fr.ptrs[i] = p
		}
		return
	}
	if fs, ok := from.Underlying().(*types.Struct); ok {
		fsi, tsi := e.st.structOf(from), e.st.structOf(to)
		var args []string
		for k := 0; k < fs.NumFields(); k++ {
			args = append(args, app(fsi.fields[k], x))
		}
		fr.setVal(i, app("mk-"+tsi.name, args...))
		return
	}
	e.errf("%s: unsupported ChangeType %s → %s", fr.fn.Name(), from, to)
	fr.vals[i] = x
}

func (fr *frame) typeAssert(i *ssa.TypeAssert, bc string, st *state) {
	e := fr.e
	x := fr.val(i.X)
	if _, isIface := i.AssertedType.Underlying().(*types.Interface); isIface {
		// interface-to-interface: ok unknown (non-nil required), value is x itself
		ok := e.fresh(fr.prefix+i.Name()+".ok", "Bool")
		e.assume(implies(ok, not(eq(app("i.typ", x), "0"))))
		if i.CommaOk {
			fr.tuples(i, []string{ite(ok, x, "(mk-iface 0 0)"), ok})
		} else {
			fr.oblige("typeassert", fr.srcText(i.Pos()), bc, ok, i.Pos(), nil)
			fr.vals[i] = x
		}
		return
	}
	id := intLit64(int64(e.st.typeID(i.AssertedType)))
	so := e.st.sortOf(i.AssertedType)
	_, ub := e.st.boxFns(so)
	okT := eq(app("i.typ", x), id)
	v := app(ub, app("i.val", x))
	if i.CommaOk {
		vn := e.define(fr.prefix+i.Name()+".v", so, v)
		if ra := e.st.rangeAssume(i.AssertedType, vn, 0); ra != "" {
			e.assume(implies(okT, ra))
		}
		switch i.AssertedType.Underlying().(type) {
		case *types.Slice:
			e.assume(implies(okT, app("<", app("+", app("s.base", vn), app("s.cap", vn)), e.get(st, "heapTop"))))
		case *types.Pointer, *types.Map:
			e.assume(implies(okT, app("<", vn, e.get(st, "heapTop"))))
		}
		fr.tuples(i, []string{ite(okT, vn, e.st.zero(i.AssertedType)), okT})
		return
	}
	fr.oblige("typeassert", fr.srcText(i.Pos()), bc, okT, i.Pos(), nil)
	fr.setVal(i, v)
	e.assume(e.st.rangeAssume(i.AssertedType, fr.vals[i], 0))
}

// tuples records the components of a tuple-valued instruction.
func (fr *frame) tuples(v ssa.Value, comps []string) {
	for k, c := range comps {
		fr.e.tupleVals[tupleKey{v, fr, k}] = c
	}
	fr.vals[v] = "tuple"
}

type tupleKey struct {
	v  ssa.Value
	fr *frame
	k  int
}

func (fr *frame) extract(i *ssa.Extract) {
	e := fr.e
	if c, ok := e.tupleVals[tupleKey{i.Tuple, fr, i.Index}]; ok {
		fr.setVal(i, c)
		return
	}
	// unknown tuple (select / recv commaok): havoc
	t := e.fresh(fr.prefix+i.Name(), e.st.sortOf(i.Type()))
	fr.vals[i] = t
	e.assume(e.st.rangeAssume(i.Type(), t, 0))
}

func (fr *frame) slice(i *ssa.Slice, bc string, st *state) {
	e := fr.e
	var base, ln, cp string
	isStr := false
	switch xt := i.X.Type().Underlying().(type) {
	case *types.Slice:
		s := fr.val(i.X)
		base, ln, cp = app("s.base", s), app("s.len", s), app("s.cap", s)
	case *types.Basic: // string
		isStr = true
		s := fr.val(i.X)
		ln = app("gstr.len", s)
		cp = ln
	case *types.Pointer:
		arr := xt.Elem().Underlying().(*types.Array)
		p := fr.ptr(i.X)
		if !p.flat {
			if !fr.abstractOK("nestedslice") {
				e.errf("%s: slicing an array nested in a struct is outside the subset (%s)", fr.fn.Name(), fr.srcText(i.Pos()))
				fr.havocVal(i, st)
				return
			}
			// abstraction (opt-in): the slice aliases the array field, which the struct datatype cannot express. The field
			// is given an unknown value here, the slice points at fresh memory of unknown contents, and every later read or
			// write of that field in this function is an encoding error (nothing may be concluded about its contents).
			e.store(st, p, e.fresh("nested", e.st.sortOf(arr)))
			e.poison(p)
			base, ln, cp = e.alloc(st, intLit64(arr.Len())), intLit64(arr.Len()), intLit64(arr.Len())
		} else {
			base, ln, cp = p.addr, intLit64(arr.Len()), intLit64(arr.Len())
		}
	}
	lo := "0"
	if i.Low != nil {
		lo = fr.val(i.Low)
	}
	hi := ln
	if i.High != nil {
		hi = fr.val(i.High)
	}
	limit := cp
	mx := cp
	if i.Max != nil {
		mx = fr.val(i.Max)
	}
	goal := and(app("<=", "0", lo), app("<=", lo, hi), app("<=", hi, mx), app("<=", mx, limit))
	o := fr.oblige("bounds", "slice:"+fr.srcText(i.Pos()), bc, goal, i.Pos(), nil)
	o.Src = fr.srcText(i.Pos())
	if isStr {
		s := fr.val(i.X)
		r := e.fresh(fr.prefix+i.Name(), "Str")
		e.assume(eq(app("gstr.len", r), app("-", hi, lo)))
		e.assume(fmt.Sprintf("(forall ((zi Int)) (! (=> (and (<= 0 zi) (< zi (- %s %s))) (= (gstr.at %s zi) (gstr.at %s (+ zi %s)))) :pattern ((gstr.at %s zi))))", hi, lo, r, s, lo, r))
		fr.vals[i] = r
		return
	}
	fr.setVal(i, app("mk-slice", app("+", base, lo), app("-", hi, lo), app("-", mx, lo)))
}

func (fr *frame) lookup(i *ssa.Lookup, bc string, st *state) {
	e := fr.e
	switch xt := i.X.Type().Underlying().(type) {
	case *types.Map:
		dom, val, _ := e.mapRegions(xt)
		m, k := fr.val(i.X), fr.val(i.Index)
		d := app("select", app("select", e.get(st, dom), m), k)
		v := app("select", app("select", e.get(st, val), m), k)
		vv := ite(and(not(eq(m, "0")), d), v, e.st.zero(xt.Elem()))
		if i.CommaOk {
			fr.tuples(i, []string{vv, and(not(eq(m, "0")), d)})
		} else {
			fr.setVal(i, vv)
			e.assume(e.st.rangeAssume(xt.Elem(), fr.vals[i], 0))
		}
	default: // string index
		s, idx := fr.val(i.X), fr.val(i.Index)
		fr.oblige("bounds", "index:"+fr.srcText(i.Pos()), bc, and(app("<=", "0", idx), app("<", idx, app("gstr.len", s))), i.Pos(), nil)
		fr.setVal(i, app("gstr.at", s, idx))
		e.assume(and(app("<=", "0", fr.vals[i]), app("<=", fr.vals[i], "255")))
	}
}

func (fr *frame) next(i *ssa.Next, bc string, st *state) {
	e := fr.e
	rg := i.Iter.(*ssa.Range)
	mt, ok := rg.X.Type().Underlying().(*types.Map)
	if !ok {
		ok1 := e.fresh(fr.prefix+i.Name()+".ok", "Bool")
		fr.tuples(i, []string{ok1, e.fresh("k", "Int"), e.fresh("v", "Int")})
		return
	}
	dom, val, _ := e.mapRegions(mt)
	m := fr.val(rg.X)
	okc := e.fresh(fr.prefix+i.Name()+".ok", "Bool")
	k := e.fresh(fr.prefix+i.Name()+".k", e.st.sortOf(mt.Key()))
	e.assume(e.st.rangeAssume(mt.Key(), k, 0))
	r := fr.iterRegion(rg)
	vis := e.get(st, r)
	d := app("select", e.get(st, dom), m)
	e.assume(implies(okc, and(not(eq(m, "0")), app("select", d, k), not(app("select", vis, k)))))
	ks := e.st.sortOf(mt.Key())
	e.assume(implies(and(not(okc), not(eq(m, "0"))), fmt.Sprintf("(forall ((zk %s)) (! (=> (select %s zk) (select %s zk)) :pattern ((select %s zk))))", ks, d, vis, d)))
	st.regs[r] = e.define("vis", e.regionSort[r], app("store", vis, k, "true"))
	v := app("select", app("select", e.get(st, val), m), k)
	vn := e.define(fr.prefix+i.Name()+".v", e.st.sortOf(mt.Elem()), v)
	e.assume(e.st.rangeAssume(mt.Elem(), vn, 0))
	fr.tuples(i, []string{okc, k, vn})
}

func (fr *frame) ret(i *ssa.Return, bc string, st *state) {
	var rs []string
	for _, r := range i.Results {
		rs = append(rs, fr.val(r))
	}
	fr.rets = append(fr.rets, retPoint{bc: bc, results: rs, st: st})
	if !fr.isRoot || fr.spec == nil {
		return
	}
	e := fr.e
	env := fr.baseEnv(st)
	env.pre = fr.entry
	fr.bindResults(env, fr.fn, fr.spec, rs)
	if len(fr.spec.Exits) > 0 {
		blk := i.Block()
		env.lookup = func(name string) (binding, bool) { return fr.lookupLocal(name, blk, st) }
		env.phiOf = func(loop int, name string) (binding, bool) {
			for _, li := range fr.loops {
				if li.ordinal != loop || !(li.header == blk || li.header.Dominates(blk)) {
					continue
				}
				for _, instr := range li.header.Instrs {
					phi, ok := instr.(*ssa.Phi)
					if !ok {
						break
					}
					if phi.Comment == name {
						if t, ok := fr.vals[phi]; ok {
							return binding{term: t, typ: phi.Type()}, true
						}
					}
				}
			}
			return binding{}, false
		}
		for _, c := range fr.spec.Exits {
			t, err := env.boolExpr(c.Text)
			if err != nil {
				// a return that precedes the loops/locals the clause talks about: the clause does not apply there
				fr.exitSkipped[c.Label] = err.Error()
				continue
			}
			fr.exitDone[c.Label] = true
			o := fr.oblige("exit", c.Label, bc, t, i.Pos(), clauseProps(c, e))
			o.Src = c.Text
			// clauses are cumulative: once proved, a clause may be used by the clauses that follow it
			e.assume(implies(bc, t))
		}
	}
	env.lookup, env.phiOf = nil, nil
	for _, c := range fr.spec.Ensures {
		t, err := env.boolExpr(c.Text)
		if err != nil {
			e.errf("%s:%d: %v", c.File, c.Line, err)
			continue
		}
		o := fr.oblige("ensures", c.Label, bc, t, i.Pos(), clauseProps(c, e))
		o.Src = c.Text
		e.assume(implies(bc, t))
	}

}

func (fr *frame) bindResults(env *specEnv, fn *ssa.Function, spec *FuncSpec, rs []string) {
	res := fn.Signature.Results()
	for k := 0; k < res.Len(); k++ {
		b := binding{term: rs[k], typ: res.At(k).Type()}
		env.vars[fmt.Sprintf("result%d", k)] = b
		if res.Len() == 1 {
			env.vars["result"] = b
		}
		if n := res.At(k).Name(); n != "" && n != "_" {
			env.vars[n] = b
		}
		if spec != nil && k < len(spec.Results) {
			env.vars[spec.Results[k]] = b
		}
	}
}

type prodEntry struct {
	u, v string
	tag  int
}

func (e *Enc) tagVisible(t int) bool {
	return t == 0 || t == e.curTag || e.curAllowed == nil || e.curAllowed[t]
}

// product registers a non-linear product u*v and emits sign and monotonicity lemma instances
// (valid facts of integer arithmetic) against earlier products sharing a factor.
func (e *Enc) product(u, v string) {
	u, v = e.canon(u), e.canon(v)
	for _, p := range e.products {
		if e.tagVisible(p.tag) && ((p.u == u && p.v == v) || (p.u == v && p.v == u)) {
			return
		}
	}
	e.assume(implies(and(app(">=", u, "0"), app(">=", v, "0")), app(">=", app("*", u, v), "0")))
	e.assume(implies(and(app(">=", u, "1"), app(">=", v, "0")), app(">=", app("*", u, v), v)))
	e.assume(implies(and(app(">=", v, "1"), app(">=", u, "0")), app(">=", app("*", u, v), u)))
	for _, p := range e.products {
		if !e.tagVisible(p.tag) {
			continue
		}
		pp := [2]string{p.u, p.v}
		for a := 0; a < 2; a++ {
			for b := 0; b < 2; b++ {
				pc, po := pp[a], pp[1-a]
				var nc, no string
				if b == 0 {
					nc, no = u, v
				} else {
					nc, no = v, u
				}
				if pc != nc {
					continue
				}
				e.assume(implies(and(app(">=", pc, "0"), app("<=", po, no)), app("<=", app("*", po, pc), app("*", no, pc))))
				e.assume(implies(and(app(">=", pc, "0"), app("<=", no, po)), app("<=", app("*", no, pc), app("*", po, pc))))
				e.assume(implies(and(app(">=", pc, "0"), app("<", po, no)), app("<=", app("+", app("*", po, pc), pc), app("*", no, pc))))
				e.assume(implies(and(app(">=", pc, "0"), app("<", no, po)), app("<=", app("+", app("*", no, pc), pc), app("*", po, pc))))
				// exact successor instances of distributivity: (x+1)*c == x*c + c
				e.assume(implies(eq(no, app("+", po, "1")), eq(app("*", no, pc), app("+", app("*", po, pc), pc))))
				e.assume(implies(eq(po, app("+", no, "1")), eq(app("*", po, pc), app("+", app("*", no, pc), pc))))
			}
		}
	}
	e.products = append(e.products, prodEntry{u, v, e.curTag})
}

// shadowOf returns an Int term k and a condition c such that c ==> t == to_real(k), if one is known.
func (e *Enc) shadowOf(t string) (string, string, bool) {
	t = e.canon(t)
	if sh, ok := e.shadow[t]; ok {
		return sh[0], sh[1], true
	}
	if r, ok := litRat(t); ok && r.IsInt() {
		return intLit(r.Num()), "true", true
	}
	return "", "", false
}
