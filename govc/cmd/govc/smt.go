package main

import (
	"fmt"
	"go/types"
	"math/big"
	"regexp"
	"sort"
	"strings"
)

// ---------------------------------------------------------------------------
// SMT-LIB term helpers. Terms are plain strings.

func app(op string, args ...string) string {
	if len(args) == 0 {
		return op
	}
	return "(" + op + " " + strings.Join(args, " ") + ")"
}

func and(args ...string) string {
	var xs []string
	for _, a := range args {
		if a == "true" || a == "" {
			continue
		}
		if a == "false" {
			return "false"
		}
		xs = append(xs, a)
	}
	switch len(xs) {
	case 0:
		return "true"
	case 1:
		return xs[0]
	}
	return app("and", xs...)
}

func or(args ...string) string {
	var xs []string
	for _, a := range args {
		if a == "false" || a == "" {
			continue
		}
		if a == "true" {
			return "true"
		}
		xs = append(xs, a)
	}
	switch len(xs) {
	case 0:
		return "false"
	case 1:
		return xs[0]
	}
	return app("or", xs...)
}

func not(a string) string {
	switch a {
	case "true":
		return "false"
	case "false":
		return "true"
	}
	return app("not", a)
}

func implies(a, b string) string {
	if a == "true" {
		return b
	}
	if a == "false" {
		return "true"
	}
	if b == "true" {
		return "true"
	}
	return app("=>", a, b)
}

func ite(c, a, b string) string {
	if c == "true" {
		return a
	}
	if c == "false" {
		return b
	}
	if a == b {
		return a
	}
	return app("ite", c, a, b)
}

func eq(a, b string) string { return app("=", a, b) }

func intLit(v *big.Int) string {
	if v.Sign() < 0 {
		return "(- " + new(big.Int).Neg(v).String() + ")"
	}
	return v.String()
}

func intLit64(v int64) string { return intLit(big.NewInt(v)) }

func ratLit(r *big.Rat) string {
	neg := r.Sign() < 0
	a := new(big.Rat).Abs(r)
	var s string
	if a.IsInt() {
		s = a.Num().String() + ".0"
	} else {
		s = "(/ " + a.Num().String() + ".0 " + a.Denom().String() + ".0)"
	}
	if neg {
		return "(- " + s + ")"
	}
	return s
}

func pow2(n uint) *big.Int { return new(big.Int).Lsh(big.NewInt(1), n) }

// ---------------------------------------------------------------------------
// Sorts

const prelude = `(set-option :produce-models true)
(set-logic ALL)
(declare-datatypes ((Slice 0)) (((mk-slice (s.base Int) (s.len Int) (s.cap Int)))))
(declare-datatypes ((Iface 0)) (((mk-iface (i.typ Int) (i.val Int)))))
(declare-datatypes ((Time 0)) (((mk-time (t.abs Int) (t.loc Int)))))
(declare-sort Str 0)
(declare-fun gstr.len (Str) Int)
(declare-fun gstr.at (Str Int) Int)
(define-fun tdiv ((a Int) (b Int)) Int (ite (>= a 0) (ite (> b 0) (div a b) (- (div a (- b)))) (ite (> b 0) (- (div (- a) b)) (div (- a) (- b)))))
(define-fun tmod ((a Int) (b Int)) Int (- a (* b (tdiv a b))))
(declare-fun tdivv (Int Int) Int)
(define-fun imin ((a Int) (b Int)) Int (ite (<= a b) a b))
(define-fun imax ((a Int) (b Int)) Int (ite (>= a b) a b))
(define-fun rtrunc ((x Real)) Int (ite (>= x 0.0) (to_int x) (- (to_int (- x)))))
(define-fun rabs ((x Real)) Real (ite (>= x 0.0) x (- x)))
(declare-fun ea (Int Int) Int)
(assert (forall ((b Int) (i Int)) (! (= (ea b i) (+ b i)) :pattern ((ea b i)))))
`

type structInfo struct {
	name   string // SMT sort name
	st     *types.Struct
	fields []string // selector names
	sorts  []string
}

type sortTable struct {
	decls      []string // datatype declarations, in dependency order
	structs    map[string]*structInfo
	byType     map[types.Type]*structInfo
	typeIDs    map[string]int
	boxDecl    map[string]bool
	extraDecls []string
}

func newSortTable() *sortTable {
	return &sortTable{structs: map[string]*structInfo{}, byType: map[types.Type]*structInfo{}, typeIDs: map[string]int{}, boxDecl: map[string]bool{}}
}

func isTime(t types.Type) bool {
	if n, ok := types.Unalias(t).(*types.Named); ok {
		o := n.Obj()
		return o.Pkg() != nil && o.Pkg().Path() == "time" && o.Name() == "Time"
	}
	return false
}

var byteRe = regexp.MustCompile(`\bbyte\b`)
var runeRe = regexp.MustCompile(`\brune\b`)

func typeKey(t types.Type) string {
	t = types.Unalias(t)
	s := types.TypeString(t, func(p *types.Package) string { return p.Path() })
	s = runeRe.ReplaceAllString(byteRe.ReplaceAllString(s, "uint8"), "int32")
	r := strings.NewReplacer("github.com/alpacahq/marketstore/v4/", "", " ", "_", "*", "P", "[", "L", "]", "R", "/", ".", "{", "_", "}", "_", ";", "_", "(", "_", ")", "_", ",", "_", "\"", "_", "|", "_")
	return r.Replace(s)
}

// sortOf returns the SMT sort for a Go type.
func (st *sortTable) sortOf(t types.Type) string {
	if isTime(t) {
		return "Time"
	}
	switch u := t.Underlying().(type) {
	case *types.Basic:
		info := u.Info()
		switch {
		case info&types.IsBoolean != 0:
			return "Bool"
		case info&types.IsInteger != 0:
			return "Int"
		case info&types.IsFloat != 0:
			return "Real"
		case info&types.IsString != 0:
			return "Str"
		case u.Kind() == types.UnsafePointer:
			return "Int"
		case u.Kind() == types.UntypedNil:
			return "Int"
		}
		return "Int"
	case *types.Pointer, *types.Map, *types.Chan, *types.Signature:
		return "Int"
	case *types.Slice:
		return "Slice"
	case *types.Interface:
		return "Iface"
	case *types.Array:
		return "(Array Int " + st.sortOf(u.Elem()) + ")"
	case *types.Struct:
		return st.structOf(t).name
	case *types.Tuple:
		return "Int"
	}
	return "Int"
}

func (st *sortTable) structOf(t types.Type) *structInfo {
	if si, ok := st.byType[t]; ok {
		return si
	}
	key := typeKey(t)
	if si, ok := st.structs[key]; ok {
		st.byType[t] = si
		return si
	}
	u := t.Underlying().(*types.Struct)
	si := &structInfo{name: "S_" + key, st: u}
	st.structs[key] = si
	st.byType[t] = si
	var fs []string
	for i := 0; i < u.NumFields(); i++ {
		f := u.Field(i)
		so := st.sortOf(f.Type())
		sel := fmt.Sprintf("%s.%s", si.name, f.Name())
		if f.Name() == "_" || f.Name() == "" {
			sel = fmt.Sprintf("%s._%d", si.name, i)
		}
		si.fields = append(si.fields, sel)
		si.sorts = append(si.sorts, so)
		fs = append(fs, fmt.Sprintf("(%s %s)", sel, so))
	}
	if len(fs) == 0 {
		st.decls = append(st.decls, fmt.Sprintf("(declare-datatypes ((%s 0)) (((mk-%s))))", si.name, si.name))
	} else {
		st.decls = append(st.decls, fmt.Sprintf("(declare-datatypes ((%s 0)) (((mk-%s %s))))", si.name, si.name, strings.Join(fs, " ")))
	}
	return si
}

// typeID: dynamic-type identifier of a concrete type; id mod 32 is the reflect-style kind code of its underlying type.
func (st *sortTable) typeID(t types.Type) int {
	k := typeKey(t)
	if id, ok := st.typeIDs[k]; ok {
		return id
	}
	id := (len(st.typeIDs)+1)*32 + kindCode(t)
	st.typeIDs[k] = id
	return id
}

var kindNames = map[string]int{"bool": 1, "int": 2, "int8": 3, "int16": 4, "int32": 5, "int64": 6, "uint": 7, "uint8": 8, "uint16": 9, "uint32": 10, "uint64": 11,
	"float32": 12, "float64": 13, "string": 14, "slice": 15, "struct": 16, "ptr": 17, "map": 18, "array": 19, "interface": 20, "func": 21, "chan": 22, "bytes": 23}

func kindCode(t types.Type) int {
	switch u := t.Underlying().(type) {
	case *types.Basic:
		switch u.Kind() {
		case types.Bool:
			return 1
		case types.Int:
			return 2
		case types.Int8:
			return 3
		case types.Int16:
			return 4
		case types.Int32:
			return 5
		case types.Int64:
			return 6
		case types.Uint:
			return 7
		case types.Uint8:
			return 8
		case types.Uint16:
			return 9
		case types.Uint32:
			return 10
		case types.Uint64:
			return 11
		case types.Float32:
			return 12
		case types.Float64:
			return 13
		case types.String:
			return 14
		}
	case *types.Slice:
		if b, ok := u.Elem().Underlying().(*types.Basic); ok && b.Kind() == types.Uint8 {
			if _, named := t.(*types.Named); !named {
				return 23 // plain []byte
			}
		}
		return 15
	case *types.Struct:
		return 16
	case *types.Pointer:
		return 17
	case *types.Map:
		return 18
	case *types.Array:
		return 19
	case *types.Interface:
		return 20
	case *types.Signature:
		return 21
	case *types.Chan:
		return 22
	}
	return 0
}

// boxFns returns the names of the box/unbox functions for a sort, declaring them on first use.
func (st *sortTable) boxFns(sortName string) (string, string) {
	k := strings.NewReplacer("(", "_", ")", "_", " ", "_").Replace(sortName)
	b, u := "box_"+k, "unbox_"+k
	if !st.boxDecl[k] {
		st.boxDecl[k] = true
		st.extraDecls = append(st.extraDecls,
			fmt.Sprintf("(declare-fun %s (%s) Int)", b, sortName),
			fmt.Sprintf("(declare-fun %s (Int) %s)", u, sortName))
	}
	return b, u
}

// zero returns the zero value term of a Go type.
func (st *sortTable) zero(t types.Type) string {
	if isTime(t) {
		return "(mk-time zeroTimeAbs 0)"
	}
	switch u := t.Underlying().(type) {
	case *types.Basic:
		info := u.Info()
		switch {
		case info&types.IsBoolean != 0:
			return "false"
		case info&types.IsFloat != 0:
			return "0.0"
		case info&types.IsString != 0:
			return "gstr.empty"
		}
		return "0"
	case *types.Slice:
		return "(mk-slice 0 0 0)"
	case *types.Interface:
		return "(mk-iface 0 0)"
	case *types.Array:
		return fmt.Sprintf("((as const %s) %s)", st.sortOf(t), st.zero(u.Elem()))
	case *types.Struct:
		si := st.structOf(t)
		if len(si.fields) == 0 {
			return "mk-" + si.name
		}
		var zs []string
		for i := 0; i < u.NumFields(); i++ {
			zs = append(zs, st.zero(u.Field(i).Type()))
		}
		return app("mk-"+si.name, zs...)
	}
	return "0"
}

// intRange returns (lo, hi, ok) for integer basic types.
func intRange(t types.Type) (lo, hi *big.Int, ok bool) {
	b, isB := t.Underlying().(*types.Basic)
	if !isB || b.Info()&types.IsInteger == 0 {
		return nil, nil, false
	}
	bits, signed := intBits(b)
	if signed {
		return new(big.Int).Neg(pow2(bits - 1)), new(big.Int).Sub(pow2(bits-1), big.NewInt(1)), true
	}
	return big.NewInt(0), new(big.Int).Sub(pow2(bits), big.NewInt(1)), true
}

func intBits(b *types.Basic) (uint, bool) {
	switch b.Kind() {
	case types.Int8:
		return 8, true
	case types.Int16:
		return 16, true
	case types.Int32, types.UntypedRune:
		return 32, true
	case types.Int64, types.Int, types.UntypedInt:
		return 64, true
	case types.Uint8:
		return 8, false
	case types.Uint16:
		return 16, false
	case types.Uint32:
		return 32, false
	case types.Uint64, types.Uint, types.Uintptr:
		return 64, false
	}
	return 64, true
}

// wrap wraps an exact integer term into the range of type t.
func wrapTo(t types.Type, x string) string {
	b, ok := t.Underlying().(*types.Basic)
	if !ok || b.Info()&types.IsInteger == 0 {
		return x
	}
	bits, signed := intBits(b)
	m := pow2(bits).String()
	if !signed {
		return app("mod", x, m)
	}
	h := pow2(bits - 1).String()
	return app("-", app("mod", app("+", x, h), m), h)
}

// rangeAssume yields a formula constraining term x (of Go type t) to t's value range ("" if none).
func (st *sortTable) rangeAssume(t types.Type, x string, depth int) string {
	if isTime(t) {
		// every time.Time is an int64 count of seconds since year 1 plus nanoseconds: |unix ns| < 9.3e27
		return and(app("<=", "(- 9300000000000000000000000000)", app("t.abs", x)), app("<=", app("t.abs", x), "9300000000000000000000000000"))
	}
	switch u := t.Underlying().(type) {
	case *types.Basic:
		if lo, hi, ok := intRange(t); ok {
			return and(app("<=", intLit(lo), x), app("<=", x, intLit(hi)))
		}
		if u.Info()&types.IsString != 0 {
			return and(app("<=", "0", app("gstr.len", x)), app("<=", app("gstr.len", x), maxSliceCap))
		}
	case *types.Slice:
		return and(app("<=", "0", app("s.len", x)), app("<=", app("s.len", x), app("s.cap", x)), app("<=", "0", app("s.base", x)), app("<=", app("s.cap", x), maxSliceCap),
			implies(eq(app("s.base", x), "0"), eq(app("s.cap", x), "0")))
	case *types.Pointer, *types.Map, *types.Chan:
		return app("<=", "0", x)
	case *types.Interface:
		return app("<=", "0", app("i.typ", x))
	case *types.Struct:
		if depth > 3 {
			return ""
		}
		si := st.structOf(t)
		var cs []string
		for i := 0; i < u.NumFields(); i++ {
			c := st.rangeAssume(u.Field(i).Type(), app(si.fields[i], x), depth+1)
			if c != "" {
				cs = append(cs, c)
			}
		}
		return and(cs...)
	}
	return ""
}

// maxSliceCap: assumption "no slice has more than 2^47 elements" (amd64 user address space).
const maxSliceCap = "140737488355328"

func sortedKeys[V any](m map[string]V) []string {
	ks := make([]string, 0, len(m))
	for k := range m {
		ks = append(ks, k)
	}
	sort.Strings(ks)
	return ks
}
