package main

import (
	"fmt"
	"go/ast"
	"go/parser"
	"go/token"
	"go/types"
	"math/big"
	"os"
	"path/filepath"
	"strconv"
	"strings"

	"golang.org/x/tools/go/ssa"
)

// genHarness writes a replay test for a refuted obligation of a function whose parameters can be rebuilt from the
// solver's model without guessing: integers, booleans, strings, time.Time in UTC and integer slices. The test calls
// the REAL function on the model's input. A panic reproduces a run-time-check obligation; for a post-condition whose
// clause mentions only parameters, results, integer arithmetic and len(), the clause itself is evaluated on the
// results. Returns "" when the function or the model is outside that class (the violation is then reported with the
// model only).
func genHarness(o *Obligation, doc *replayDoc, dir string) string {
	if o.enc == nil || o.Result != "sat" {
		return ""
	}
	fn := o.enc.root
	if fn == nil || fn.Pkg == nil || fn.Synthetic != "" || strings.HasPrefix(fn.Name(), "lemma") {
		return ""
	}
	isMethod := fn.Signature.Recv() != nil
	pkgName := fn.Pkg.Pkg.Name()
	imports := map[string]string{"testing": ""}
	qual := func(p *types.Package) string {
		if p == fn.Pkg.Pkg {
			return ""
		}
		imports[p.Path()] = p.Name()
		return p.Name()
	}
	var b strings.Builder
	var args []string
	shadow := map[string]string{} // clause identifier -> Go expression of type int64 / bool
	for i, prm := range fn.Params {
		pv, ok := doc.Params[prm.Name()]
		if !ok {
			return ""
		}
		ts := types.TypeString(prm.Type(), qual)
		v := fmt.Sprintf("p%d", i)
		switch kindOf(prm.Type()) {
		case "ptr":
			// a pointer to a struct of scalars and short strings (typically the receiver): rebuilt field by field
			lit, ok := structLit(prm.Type(), pv, qual)
			if !ok {
				return ""
			}
			fmt.Fprintf(&b, "\t%s := %s\n", v, lit)
			if st, isSt := prm.Type().Underlying().(*types.Pointer).Elem().Underlying().(*types.Struct); isSt {
				for k := 0; k < st.NumFields(); k++ {
					f := st.Field(k)
					if kindOf(f.Type()) == "int" {
						shadow[prm.Name()+"."+f.Name()] = "int64(" + v + "." + f.Name() + ")"
					}
				}
			}
		case "time":
			// an instant in UTC (the model's location id has no counterpart in the real program)
			var absS string
			switch m := pv.(type) {
			case map[string]string:
				absS = m["abs"]
			case map[string]interface{}:
				absS, _ = m["abs"].(string)
			}
			n, ok := new(big.Int).SetString(absS, 10)
			if !ok || !n.IsInt64() {
				return ""
			}
			imports["time"] = "time"
			fmt.Fprintf(&b, "\t%s := time.Unix(0, %s).UTC()\n", v, n.String())
		case "int":
			s, _ := pv.(string)
			n, ok := new(big.Int).SetString(s, 10)
			if !ok || !fitsType(n, prm.Type()) {
				return ""
			}
			fmt.Fprintf(&b, "\t%s := %s(%s)\n", v, ts, n.String())
			if n.IsInt64() {
				shadow[prm.Name()] = "int64(" + v + ")"
			}
		case "bool":
			s, _ := pv.(string)
			if s != "true" && s != "false" {
				return ""
			}
			fmt.Fprintf(&b, "\t%s := %s(%s)\n", v, ts, s)
			shadow[prm.Name()] = "bool(" + v + ")"
		case "string":
			m, _ := pv.(map[string]interface{})
			bs, ok := modelBytes(m, "len", "bytes")
			if !ok {
				return ""
			}
			fmt.Fprintf(&b, "\t%s := %s(%s)\n", v, ts, strconv.Quote(string(bs)))
			shadow["len("+prm.Name()+")"] = "int64(len(" + v + "))"
		case "intslice":
			m, _ := pv.(map[string]interface{})
			sl := prm.Type().Underlying().(*types.Slice)
			eb, isB := sl.Elem().Underlying().(*types.Basic)
			if !isB || eb.Kind() != types.Uint8 {
				return ""
			}
			if base, _ := m["base"].(string); base == "0" {
				fmt.Fprintf(&b, "\tvar %s %s\n", v, ts)
			} else {
				bs, ok := sliceModelBytes(m)
				if !ok {
					return ""
				}
				fmt.Fprintf(&b, "\t%s := %s%s\n", v, ts, byteLit(bs))
			}
			shadow["len("+prm.Name()+")"] = "int64(len(" + v + "))"
		default:
			return ""
		}
		args = append(args, v)
	}
	// results
	res := fn.Signature.Results()
	var rvars []string
	for i := 0; i < res.Len(); i++ {
		rvars = append(rvars, fmt.Sprintf("r%d", i))
		names := []string{}
		if n := res.At(i).Name(); n != "" && n != "_" {
			names = append(names, n)
		}
		if res.Len() == 1 {
			names = append(names, "result")
		}
		names = append(names, fmt.Sprintf("result%d", i))
		for _, n := range names {
			switch kindOf(res.At(i).Type()) {
			case "int":
				shadow[n] = fmt.Sprintf("int64(r%d)", i)
			case "bool":
				shadow[n] = fmt.Sprintf("bool(r%d)", i)
			case "intslice", "string":
				shadow["len("+n+")"] = fmt.Sprintf("int64(len(r%d))", i)
			}
			if isErrorType(res.At(i).Type()) {
				shadow[n+" == nil"] = fmt.Sprintf("(r%d == nil)", i)
				shadow[n+" != nil"] = fmt.Sprintf("(r%d != nil)", i)
			}
		}
	}
	call := fn.Name() + "(" + strings.Join(args, ", ") + ")"
	if isMethod {
		if len(args) == 0 {
			return ""
		}
		call = args[0] + "." + fn.Name() + "(" + strings.Join(args[1:], ", ") + ")"
	}
	clause := ""
	if o.Kind == "ensures" {
		clause = clauseToGo(o.src(), shadow)
	}
	var out strings.Builder
	fmt.Fprintf(&out, "package %s\n\n// generated by govc for %s — replays the solver's counterexample on the real code\n\nimport (\n", pkgName, o.Name)
	for p, n := range imports {
		if n == "" || strings.HasSuffix(p, "/"+n) || p == n {
			fmt.Fprintf(&out, "\t%q\n", p)
		} else {
			fmt.Fprintf(&out, "\t%s %q\n", n, p)
		}
	}
	out.WriteString(")\n\n")
	out.WriteString("func vmod(a, b int64) int64 { m := a % b; if m < 0 { if b < 0 { m -= b } else { m += b } }; return m }\n")
	out.WriteString("func vdiv(a, b int64) int64 { return (a - vmod(a, b)) / b }\n")
	out.WriteString("func vimp(a, b bool) bool { return !a || b }\n")
	out.WriteString("func vite(c bool, a, b int64) int64 { if c { return a }; return b }\n")
	out.WriteString("func vmin(a, b int64) int64 { if a < b { return a }; return b }\n")
	out.WriteString("func vmax(a, b int64) int64 { if a > b { return a }; return b }\n\n")
	out.WriteString("func TestVerifReplay(t *testing.T) {\n")
	out.WriteString("\tdefer func() {\n\t\tif r := recover(); r != nil {\n\t\t\tt.Fatalf(\"VERIF-REPLAY-FAIL: panic: %v\", r)\n\t\t}\n\t}()\n")
	out.WriteString(b.String())
	if len(rvars) > 0 {
		fmt.Fprintf(&out, "\t%s := %s\n", strings.Join(rvars, ", "), call)
		for _, r := range rvars {
			fmt.Fprintf(&out, "\t_ = %s\n", r)
		}
	} else {
		fmt.Fprintf(&out, "\t%s\n", call)
	}
	if clause != "" {
		fmt.Fprintf(&out, "\tif !(%s) {\n\t\tt.Fatalf(\"VERIF-REPLAY-FAIL: clause violated on the real code: %%s\", %s)\n\t}\n", clause, strconv.Quote(o.src()))
		out.WriteString("\tt.Log(\"clause holds on the real code for this input\")\n")
	} else {
		out.WriteString("\tt.Log(\"no panic on the real code for this input (clause not evaluated)\")\n")
	}
	out.WriteString("}\n")
	path := filepath.Join(dir, sanitizeFile("gen_"+o.Name)+"_replay_test.go")
	if err := os.WriteFile(path, []byte(out.String()), 0o644); err != nil {
		return ""
	}
	return path
}

// structLit builds `&T{field: value, ...}` for a pointer-to-struct parameter from the model's field values; only
// integer, boolean and short string fields are set (others keep their zero value); ok=false if a value does not fit.
func structLit(t types.Type, pv interface{}, qual types.Qualifier) (string, bool) {
	pt, ok := t.Underlying().(*types.Pointer)
	if !ok {
		return "", false
	}
	st, ok := pt.Elem().Underlying().(*types.Struct)
	if !ok {
		return "", false
	}
	m, _ := pv.(map[string]string)
	if m == nil {
		if mi, isI := pv.(map[string]interface{}); isI {
			m = map[string]string{}
			for k, v := range mi {
				if s, isS := v.(string); isS {
					m[k] = s
				}
			}
		}
	}
	if m == nil {
		return "", false
	}
	var fs []string
	for k := 0; k < st.NumFields(); k++ {
		f := st.Field(k)
		switch kindOf(f.Type()) {
		case "int":
			s, has := m[f.Name()]
			if !has {
				continue
			}
			n, okN := new(big.Int).SetString(s, 10)
			if !okN || !fitsType(n, f.Type()) {
				return "", false
			}
			fs = append(fs, fmt.Sprintf("%s: %s(%s)", f.Name(), types.TypeString(f.Type(), qual), n.String()))
		case "bool":
			if s, has := m[f.Name()]; has && (s == "true" || s == "false") {
				fs = append(fs, fmt.Sprintf("%s: %s", f.Name(), s))
			}
		case "string":
			ls, has := m[f.Name()+"#len"]
			if !has {
				continue
			}
			n, err := strconv.Atoi(ls)
			if err != nil || n < 0 || n > 8 {
				return "", false // longer than the bytes the model gives
			}
			bs := make([]byte, n)
			for i := 0; i < n; i++ {
				v, _ := strconv.Atoi(m[fmt.Sprintf("%s#%d", f.Name(), i)])
				bs[i] = byte(v)
			}
			fs = append(fs, fmt.Sprintf("%s: %s", f.Name(), strconv.Quote(string(bs))))
		}
	}
	return "&" + types.TypeString(pt.Elem(), qual) + "{" + strings.Join(fs, ", ") + "}", true
}

func isErrorType(t types.Type) bool {
	return types.Identical(t, types.Universe.Lookup("error").Type())
}

func fitsType(n *big.Int, t types.Type) bool {
	lo, hi, ok := intRange(t)
	if !ok {
		return false
	}
	return n.Cmp(lo) >= 0 && n.Cmp(hi) <= 0
}

func modelBytes(m map[string]interface{}, lenKey, bytesKey string) ([]byte, bool) {
	ls, _ := m[lenKey].(string)
	n, err := strconv.ParseInt(ls, 10, 64)
	if err != nil || n < 0 || n > 1<<16 {
		return nil, false
	}
	out := make([]byte, n)
	if es, ok := m[bytesKey].([]string); ok {
		for i, e := range es {
			if int64(i) < n {
				v, _ := strconv.ParseInt(e, 10, 64)
				out[i] = byte(v)
			}
		}
	}
	if es, ok := m[bytesKey].([]interface{}); ok {
		for i, e := range es {
			if int64(i) < n {
				s, _ := e.(string)
				v, _ := strconv.ParseInt(s, 10, 64)
				out[i] = byte(v)
			}
		}
	}
	return out, true
}

// sliceModelBytes rebuilds a byte slice parameter: the first elements whose values the model gives (the model terms
// are select(mem, ea(base, k)) in increasing k as they occur in the query; unknown cells are 0).
func sliceModelBytes(m map[string]interface{}) ([]byte, bool) {
	return modelBytes(m, "len", "elems")
}

func byteLit(bs []byte) string {
	var sb strings.Builder
	sb.WriteString("{")
	for i, c := range bs {
		if i > 0 {
			sb.WriteString(", ")
		}
		fmt.Fprintf(&sb, "%d", c)
	}
	sb.WriteString("}")
	return sb.String()
}

// clauseToGo translates a clause over parameters, results, integer arithmetic, comparisons, boolean connectives,
// ==>, mod/div/ite/min/max and len() into a Go boolean expression over the shadow variables; "" if it uses more.
func clauseToGo(src string, shadow map[string]string) string {
	if src == "" {
		return ""
	}
	e, err := parser.ParseExpr(rewriteClause(src))
	if err != nil {
		return ""
	}
	ok := true
	var tr func(x ast.Expr) string
	tr = func(x ast.Expr) string {
		switch n := x.(type) {
		case *ast.ParenExpr:
			return "(" + tr(n.X) + ")"
		case *ast.BasicLit:
			if n.Kind == token.INT {
				return "int64(" + n.Value + ")"
			}
		case *ast.Ident:
			if n.Name == "true" || n.Name == "false" {
				return n.Name
			}
			if s, found := shadow[n.Name]; found {
				return s
			}
		case *ast.UnaryExpr:
			if n.Op == token.NOT || n.Op == token.SUB {
				return n.Op.String() + tr(n.X)
			}
		case *ast.BinaryExpr:
			if id, isId := n.X.(*ast.Ident); isId {
				if y, isNil := n.Y.(*ast.Ident); isNil && y.Name == "nil" {
					if s, found := shadow[id.Name+" "+n.Op.String()+" nil"]; found {
						return s
					}
				}
			}
			switch n.Op {
			case token.ADD, token.SUB, token.MUL, token.QUO, token.REM, token.EQL, token.NEQ, token.LSS, token.LEQ, token.GTR, token.GEQ, token.LAND, token.LOR:
				return "(" + tr(n.X) + " " + n.Op.String() + " " + tr(n.Y) + ")"
			}
		case *ast.CallExpr:
			if f, isId := n.Fun.(*ast.Ident); isId {
				switch {
				case f.Name == "len" && len(n.Args) == 1:
					if a, isA := n.Args[0].(*ast.Ident); isA {
						if s, found := shadow["len("+a.Name+")"]; found {
							return s
						}
					}
				case f.Name == "implies" && len(n.Args) == 2:
					return "vimp(" + tr(n.Args[0]) + ", " + tr(n.Args[1]) + ")"
				case (f.Name == "mod" || f.Name == "div" || f.Name == "min" || f.Name == "max") && len(n.Args) == 2:
					return "v" + f.Name + "(" + tr(n.Args[0]) + ", " + tr(n.Args[1]) + ")"
				case f.Name == "ite" && len(n.Args) == 3:
					return "vite(" + tr(n.Args[0]) + ", " + tr(n.Args[1]) + ", " + tr(n.Args[2]) + ")"
				}
			}
		}
		ok = false
		return "false"
	}
	s := tr(e)
	if !ok {
		return ""
	}
	return s
}

var _ = ssa.Function{}
