package main

import (
	"bytes"
	"context"
	"fmt"
	"os"
	"os/exec"
	"path/filepath"
	"strings"
	"sync"
	"time"
)

type solverDef struct {
	name string
	cmd  func(file string, secs int) []string
}

var solvers = []solverDef{
	{"z3-4.8.12", func(f string, s int) []string { return []string{"z3", fmt.Sprintf("-T:%d", s), f} }},
	{"z3-5.1.0", func(f string, s int) []string { return []string{"z3-new", fmt.Sprintf("-T:%d", s), f} }},
	{"cvc5-1.0.3", func(f string, s int) []string {
		return []string{"cvc5", fmt.Sprintf("--tlimit=%d", s*1000), "--produce-models", f}
	}},
}

// buildQuery assembles the SMT-LIB text of one obligation.
func (e *Enc) buildQuery(o *Obligation, withModel bool) string {
	var b strings.Builder
	b.WriteString(prelude)
	b.WriteString("(declare-const gstr.empty Str)\n(assert (= (gstr.len gstr.empty) 0))\n")
	b.WriteString("(define-fun zeroTimeAbs () Int (- 62135596800000000000))\n")
	b.WriteString("(assert (forall ((s Str)) (! (and (>= (gstr.len s) 0) (<= (gstr.len s) 140737488355328)) :pattern ((gstr.len s))))) ;;bg\n")
	b.WriteString("(assert (forall ((s Str) (i Int)) (! (and (<= 0 (gstr.at s i)) (<= (gstr.at s i) 255)) :pattern ((gstr.at s i))))) ;;bg\n")
	// Go string equality is content equality: gstr.eq, defined by length and bytes (skolemised difference index)
	b.WriteString("(declare-fun gstr.eq (Str Str) Bool)\n(declare-fun gstr.diff (Str Str) Int)\n")
	b.WriteString("(assert (forall ((s Str) (t Str)) (! (=> (gstr.eq s t) (and (= (gstr.len s) (gstr.len t)) (forall ((i Int)) (! (=> (and (<= 0 i) (< i (gstr.len s))) (= (gstr.at s i) (gstr.at t i))) :pattern ((gstr.at s i)) :pattern ((gstr.at t i)))))) :pattern ((gstr.eq s t)))))\n")
	b.WriteString("(assert (forall ((s Str) (t Str)) (! (=> (not (gstr.eq s t)) (or (not (= (gstr.len s) (gstr.len t))) (and (<= 0 (gstr.diff s t)) (< (gstr.diff s t) (gstr.len s)) (not (= (gstr.at s (gstr.diff s t)) (gstr.at t (gstr.diff s t))))))) :pattern ((gstr.eq s t)))))\n")
	b.WriteString("(assert (forall ((s Str) (t Str)) (! (=> (= s t) (gstr.eq s t)) :pattern ((gstr.eq s t)))))\n")
	if e.rootSpec != nil && e.rootSpec.Options["strext"] != "" {
		b.WriteString("(assert (forall ((s Str) (t Str)) (! (=> (and (= (gstr.len s) (gstr.len t)) (forall ((i Int)) (=> (and (<= 0 i) (< i (gstr.len s))) (= (gstr.at s i) (gstr.at t i))))) (= s t)) :pattern ((gstr.len s) (gstr.len t)))))\n")
	}
	for _, d := range e.st.decls {
		b.WriteString(d + "\n")
	}
	for _, d := range e.st.extraDecls {
		b.WriteString(d + "\n")
	}
	for _, d := range e.strDecls {
		b.WriteString(d + "\n")
	}
	for _, d := range e.ghostDecls {
		b.WriteString(d + "\n")
	}
	for _, d := range e.axiomAsserts {
		b.WriteString(d + "\n")
	}
	for i, l := range e.out[:o.nOut] {
		if t := e.outTag[i]; t != 0 && o.allowed != nil && !o.allowed[t] {
			continue
		}
		b.WriteString(l + "\n")
	}
	if o.Guard != "" && o.Guard != "true" {
		b.WriteString("(assert " + o.Guard + ")\n")
	}
	if o.Cover {
		b.WriteString("(assert " + o.Goal + ")\n")
	} else {
		b.WriteString("(assert (not " + o.Goal + "))\n")
	}
	b.WriteString("(check-sat)\n")
	if withModel && len(o.modelTerms) > 0 {
		b.WriteString("(get-value (" + strings.Join(o.modelTerms, " ") + "))\n")
	}
	return b.String()
}

type solveResult struct {
	result  string
	backend string
	secs    float64
	output  string
}

func runSolver(ctx context.Context, sd solverDef, file string, secs int) (string, string) {
	args := sd.cmd(file, secs)
	cctx, cancel := context.WithTimeout(ctx, time.Duration(secs+2)*time.Second)
	defer cancel()
	cmd := exec.CommandContext(cctx, args[0], args[1:]...)
	var out bytes.Buffer
	cmd.Stdout = &out
	cmd.Stderr = &out
	_ = cmd.Run()
	s := out.String()
	first := strings.TrimSpace(strings.SplitN(s, "\n", 2)[0])
	switch first {
	case "sat", "unsat", "unknown":
		return first, s
	}
	if strings.Contains(s, "timeout") || cctx.Err() != nil {
		return "timeout", s
	}
	return "error", s
}

// solve races the solvers on one query.
func solve(query string, dir, name string, secs int, want string) solveResult {
	file := filepath.Join(dir, sanitizeFile(name)+".smt2")
	_ = os.WriteFile(file, []byte(query), 0o644)
	ctx, cancel := context.WithCancel(context.Background())
	defer cancel()
	type r struct {
		res, out, backend string
		secs              float64
	}
	ch := make(chan r, len(solvers))
	start := time.Now()
	for _, sd := range solvers {
		sd := sd
		go func() {
			res, out := runSolver(ctx, sd, file, secs)
			ch <- r{res, out, sd.name, time.Since(start).Seconds()}
		}()
	}
	var last r
	var outs []string
	for range solvers {
		x := <-ch
		outs = append(outs, fmt.Sprintf("[%s %.2fs] %s", x.backend, x.secs, firstLines(x.out, 3)))
		if x.res == "sat" || x.res == "unsat" {
			return solveResult{x.res, x.backend, x.secs, x.out}
		}
		if last.res == "" || x.res == "unknown" {
			last = x
		}
	}
	return solveResult{last.res, "none", time.Since(start).Seconds(), strings.Join(outs, "\n")}
}

func firstLines(s string, n int) string {
	ls := strings.Split(strings.TrimSpace(s), "\n")
	if len(ls) > n {
		ls = ls[:n]
	}
	return strings.Join(ls, " | ")
}

func sanitizeFile(s string) string {
	s = sanitize(s)
	if len(s) > 120 {
		s = s[:120]
	}
	return s
}

type job struct {
	e *Enc
	o *Obligation
}

func solveAll(jobs []job, dir string, secs, par int) {
	_ = os.MkdirAll(dir, 0o755)
	var wg sync.WaitGroup
	sem := make(chan struct{}, par)
	for idx, j := range jobs {
		wg.Add(1)
		sem <- struct{}{}
		go func(idx int, j job) {
			defer wg.Done()
			defer func() { <-sem }()
			q := j.e.buildQuery(j.o, true)
			j.o.QueryBytes = len(q)
			var r solveResult
			if cs := j.e.caseSplits(); len(cs) > 0 && !j.o.Cover {
				// explicit case split on a parameter (option cases): every case must be unsat
				r = solveResult{result: "unsat", backend: fmt.Sprintf("cases(%d)", len(cs))}
				for ci, c := range cs {
					qc := strings.Replace(q, "(check-sat)", c+"\n(check-sat)", 1)
					rc := solveStaged(qc, dir, fmt.Sprintf("%04d_%s.case%d", idx, j.o.Name, ci), secs)
					r.secs += rc.secs
					if rc.result != "unsat" {
						r.result, r.output, r.backend = rc.result, rc.output, rc.backend
						break
					}
				}
				j.o.Result, j.o.Backend, j.o.Secs, j.o.Output = r.result, r.backend, r.secs, r.output
				if r.result == "sat" {
					j.o.Model = parseModel(r.output, j.o.modelTerms)
				}
				j.o.QueryFile = filepath.Join(dir, sanitizeFile(fmt.Sprintf("%04d_%s.case0", idx, j.o.Name))+".smt2")
				return
			}
			if !j.o.Cover {
				// stage 1: drop quantified hypotheses (weaker assumptions: unsat still proves the goal)
				if qs, changed := stripQuantified(q); changed {
					s1 := 3
					if secs < s1 {
						s1 = secs
					}
					r = solve(qs, dir, fmt.Sprintf("%04d_%s.qf", idx, j.o.Name), s1, "")
					if r.result == "unsat" {
						r.backend += "(qf)"
					}
				}
			}
			if r.result != "unsat" && !j.o.Cover {
				// stage 2: drop the background axioms (global axioms, memory range facts) but keep contract hypotheses
				if qs, changed := stripBackground(q); changed {
					s1 := 5
					if secs < s1 {
						s1 = secs
					}
					r = solve(qs, dir, fmt.Sprintf("%04d_%s.nobg", idx, j.o.Name), s1, "")
					if r.result == "unsat" {
						r.backend += "(nobg)"
					} else {
						r.result = ""
					}
				}
			}
			if r.result != "unsat" {
				s2 := secs
				if j.o.Cover && s2 > 3 && !strings.HasSuffix(j.o.Name, "#axioms-consistent") {
					s2 = 3 // covers only guard against vacuity: `unsat` is the only answer that matters
				}
				r = solve(q, dir, fmt.Sprintf("%04d_%s", idx, j.o.Name), s2, "")
				if !j.o.Cover && r.result != "unsat" && r.result != "sat" {
					// undecided: one retry with three times the budget before it is reported (keeps the unchanged
					// tree free of alarms caused by machine load)
					// the retry races the full query with its background-free relaxation (unsat of either proves the goal)
					var rb solveResult
					done := make(chan struct{})
					if qs, changed := stripBackground(q); changed {
						go func() {
							rb = solve(qs, dir, fmt.Sprintf("%04d_%s.nobg-retry", idx, j.o.Name), 3*s2, "")
							close(done)
						}()
					} else {
						close(done)
					}
					r2 := solve(q, dir, fmt.Sprintf("%04d_%s.retry", idx, j.o.Name), 3*s2, "")
					<-done
					if r2.result == "unsat" || r2.result == "sat" {
						r2.backend += "(retry)"
						r = r2
					} else if rb.result == "unsat" {
						rb.backend += "(nobg,retry)"
						r = rb
					}
				}
			}
			j.o.Result, j.o.Backend, j.o.Secs, j.o.Output = r.result, r.backend, r.secs, r.output
			if r.result == "sat" {
				j.o.Model = parseModel(r.output, j.o.modelTerms)
			}
			j.o.QueryFile = filepath.Join(dir, sanitizeFile(fmt.Sprintf("%04d_%s", idx, j.o.Name))+".smt2")
		}(idx, j)
	}
	wg.Wait()
}

// parseModel parses a (get-value ...) answer: ((term value) (term value) ...)
func parseModel(out string, terms []string) map[string]string {
	m := map[string]string{}
	i := strings.Index(out, "((")
	if i < 0 {
		return m
	}
	s := out[i:]
	// tokenise into top-level pairs
	depth := 0
	start := -1
	var pairs []string
	for k := 0; k < len(s); k++ {
		switch s[k] {
		case '(':
			depth++
			if depth == 2 {
				start = k
			}
		case ')':
			if depth == 2 && start >= 0 {
				pairs = append(pairs, s[start+1:k])
				start = -1
			}
			depth--
			if depth == 0 {
				k = len(s)
			}
		}
	}
	for idx, p := range pairs {
		if idx >= len(terms) {
			break
		}
		t := terms[idx]
		p = strings.TrimSpace(p)
		// value is what follows the term text
		norm := func(x string) string { return strings.Join(strings.Fields(x), " ") }
		np := norm(p)
		nt := norm(t)
		if strings.HasPrefix(np, nt) {
			m[t] = strings.TrimSpace(np[len(nt):])
		} else {
			// fall back: last s-expression
			m[t] = lastSexp(np)
		}
	}
	return m
}

func lastSexp(s string) string {
	s = strings.TrimSpace(s)
	if strings.HasSuffix(s, ")") {
		depth := 0
		for k := len(s) - 1; k >= 0; k-- {
			if s[k] == ')' {
				depth++
			} else if s[k] == '(' {
				depth--
				if depth == 0 {
					return s[k:]
				}
			}
		}
	}
	f := strings.Fields(s)
	if len(f) == 0 {
		return ""
	}
	return f[len(f)-1]
}

// smtInt parses an SMT integer value such as "5", "(- 5)".
func smtInt(v string) (string, bool) {
	v = strings.TrimSpace(v)
	if strings.HasPrefix(v, "(-") {
		inner := strings.TrimSpace(strings.TrimSuffix(strings.TrimPrefix(v, "(-"), ")"))
		return "-" + inner, true
	}
	for _, c := range v {
		if c < '0' || c > '9' {
			return v, false
		}
	}
	return v, v != ""
}

// stripQuantified removes every assumption line containing a quantifier, keeping the final goal.
func stripQuantified(q string) (string, bool) {
	lines := strings.Split(q, "\n")
	// goal = last "(assert" line before (check-sat)
	goalIdx := -1
	for i, l := range lines {
		if strings.HasPrefix(l, "(check-sat)") {
			for k := i - 1; k >= 0; k-- {
				if strings.HasPrefix(lines[k], "(assert") {
					goalIdx = k
					break
				}
			}
			break
		}
	}
	changed := false
	var out []string
	for i, l := range lines {
		if i != goalIdx && strings.HasPrefix(l, "(assert") && (strings.Contains(l, "(forall ") || strings.Contains(l, "(exists ")) {
			changed = true
			continue
		}
		if strings.HasPrefix(l, "(get-value") {
			continue
		}
		out = append(out, l)
	}
	return strings.Join(out, "\n"), changed
}

func stripBackground(q string) (string, bool) {
	lines := strings.Split(q, "\n")
	changed := false
	var out []string
	for _, l := range lines {
		if strings.HasSuffix(l, ";;bg") {
			changed = true
			continue
		}
		if strings.HasPrefix(l, "(get-value") {
			continue
		}
		out = append(out, l)
	}
	return strings.Join(out, "\n"), changed
}

// solveStaged: quantifier-free relaxation, then without background axioms, then the full query.
func solveStaged(q, dir, name string, secs int) solveResult {
	if qs, changed := stripQuantified(q); changed {
		s1 := 3
		if secs < s1 {
			s1 = secs
		}
		if r := solve(qs, dir, name+".qf", s1, ""); r.result == "unsat" {
			r.backend += "(qf)"
			return r
		}
	}
	if qs, changed := stripBackground(q); changed {
		s1 := 5
		if secs < s1 {
			s1 = secs
		}
		if r := solve(qs, dir, name+".nobg", s1, ""); r.result == "unsat" {
			r.backend += "(nobg)"
			return r
		}
	}
	return solve(q, dir, name, secs, "")
}

// caseSplits returns the extra assertions of `option cases <param>: v1,v2,...`.
func (e *Enc) caseSplits() []string {
	if e.rootSpec == nil {
		return nil
	}
	v, ok := e.rootSpec.Options["cases"]
	if !ok {
		return nil
	}
	parts := strings.SplitN(v, ":", 2)
	if len(parts) != 2 {
		return nil
	}
	name := strings.TrimSpace(parts[0])
	var term string
	for _, p := range e.rootParams {
		if p.Name == name {
			term = p.Term
		}
	}
	if term == "" {
		return nil
	}
	var out []string
	for _, x := range strings.Split(parts[1], ",") {
		x = strings.TrimSpace(x)
		if x != "" {
			out = append(out, fmt.Sprintf("(assert (= %s %s))", term, x))
		}
	}
	return out
}
